//! C03 - no event is lost, invented, or released before a confirmed response carried it (engine S-OUT).

use crate::verif::models::ledger::{EvState, Ledger};
use crate::verif::nodes::outstation::{type_slot, Cb, CtrlAnswers};
use crate::verif::props::gen_out::*;
use crate::verif::refcodec::app::{self as refapp, ReqHeader, ALL_TYPES};
use crate::verif::rng::{mix, Rng};
use crate::verif::runner::{erase, Codec, Outcome, Property, Scenario, Tier, Violation};
use crate::verif::sout::{self, ConfSel, Op, Oracle, SoutCase, Step, TimeBase, Who, World, TL};
use std::collections::{BTreeMap, BTreeSet};

pub struct EventScenario;

pub fn property<C: Codec>() -> Property {
    Property {
        id: "C03",
        scenarios: vec![erase::<C, _>(EventScenario)],
    }
}

pub fn gen_event_script(
    rng: &mut Rng,
    cfg: &crate::verif::nodes::outstation::OutCfg,
    len: usize,
) -> Vec<Op> {
    let mut script = Vec::new();
    let mut clock = 1_000_000u64;
    if cfg.unsolicited && rng.chance(3, 4) {
        script.push(Op::Confirm {
            uns: true,
            seq: ConfSel::Expected,
            from: Who::Master,
        });
        if rng.chance(2, 3) {
            script.push(unsol_op(rng, true));
        }
    }
    for _ in 0..len {
        match rng.below(100) {
            0..=29 => {
                let u = gen_update(rng, &cfg.points, &mut clock);
                if rng.chance(1, 3) {
                    script.push(Op::UpdateAtLock {
                        site: rng.pick(&LOCK_SITES).to_string(),
                        skip: rng.below(3) as u8,
                        update: u,
                    });
                } else {
                    script.push(Op::Update(u));
                }
            }
            30..=49 => script.push(read_op(gen_event_read(rng, &cfg.points))),
            50..=61 => script.push(Op::Confirm {
                uns: false,
                seq: if rng.chance(4, 5) {
                    ConfSel::Expected
                } else {
                    ConfSel::Offset(rng.range(1, 15) as u8)
                },
                from: Who::Master,
            }),
            62..=73 => script.push(Op::Confirm {
                uns: true,
                seq: if rng.chance(4, 5) {
                    ConfSel::Expected
                } else {
                    ConfSel::Offset(rng.range(1, 15) as u8)
                },
                from: Who::Master,
            }),
            74..=81 => script.push(Op::SleepRel {
                base: if rng.chance(3, 4) {
                    TimeBase::ConfirmTimeout
                } else {
                    TimeBase::RetryDelay
                },
                delta_ms: *rng.pick(&[-1i64, 0, 1, 1]),
                since_last_tx: rng.bool(),
            }),
            82..=86 => script.push(Op::Sleep(rng.range(1, 12_000))),
            87..=92 => {
                let enable = rng.bool();
                script.push(unsol_op(rng, enable));
            }
            93..=94 => script.push(Op::Repeat),
            95..=96 => {
                if rng.bool() {
                    script.push(Op::Disconnect { eof: rng.bool() });
                }
                script.push(Op::Connect);
            }
            97 => {
                // a broadcast (with and without the confirmation it may ask for): it changes nothing about the events
                script.push(Op::Request {
                    func: *rng.pick(&[refapp::FUNC_RECORD_CURRENT_TIME, refapp::FUNC_RECORD_CURRENT_TIME, refapp::FUNC_DISABLE_UNSOL]),
                    seq: crate::verif::sout::SeqSel::Next,
                    headers: vec![],
                    flags: None,
                    from: Who::Master,
                    to: crate::verif::sout::Dest::Bcast(*rng.pick(&[0xFFFEu16, 0xFFFE, 0xFFFF, 0xFFFD])),
                });
            }
            _ => script.push(simple_request(refapp::FUNC_DELAY_MEASURE, vec![])),
        }
    }
    script
}

impl Scenario for EventScenario {
    type Case = SoutCase;

    fn name(&self) -> &'static str {
        "events"
    }

    fn runs(&self, tier: Tier) -> u64 {
        match tier {
            Tier::Quick => 90_000,
            Tier::Thorough => 2_400_000,
        }
    }

    fn rule(&self) -> String {
        "histories of 5..40 operations against the real outstation with 1..3 points of 1..4 random types (random classes, static/event variations, \
         per-type event buffers 0..5 / 1..3 / 10,50): updates (Detect/Force/Suppress, directly or injected at database lock points), READs by class/type/\
         count limit, solicited and unsolicited CONFIRMs with right and wrong sequence numbers, waits to confirm_timeout/retry_delay -1/0/+1 ms, random \
         waits, ENABLE/DISABLE_UNSOLICITED, retransmissions, disconnect/reconnect and pre-empting connections; unsolicited on/off, retries None/0/1/3, \
         tx buffers 249..2048; every transmitted fragment is decoded by the reference decoder and matched against the event ledger; non-trivial = a \
         response carrying events went unconfirmed AND a later response was confirmed; distinct = hash of the sequence of (operation kind, events \
         reported, events released, carrier state)"
            .to_string()
    }

    fn real_components(&self) -> Vec<&'static str> {
        vec![
            "outstation::session::OutstationSession",
            "outstation::database (DatabaseHandle, EventBuffer, event writer, static database)",
            "outstation::task::OutstationTask",
            "tcp::outstation::server_task::ServerTask",
            "transport::real",
            "link::layer/reader/parser",
            "app::parse / app::format",
        ]
    }

    fn stub_components(&self) -> Vec<&'static str> {
        vec![
            "physical layer (SimSocket)",
            "TCP accept loop",
            "OutstationApplication/ControlHandler/OutstationInformation (recording stubs)",
            "scripted master peer (reference codec)",
            "user threads (sim actor + lock-point injection through hook H4)",
        ]
    }

    fn generate(&self, rng: &mut Rng, _tier: Tier) -> SoutCase {
        let mut cfg = gen_event_cfg(rng);
        let ntypes = rng.urange(1, 4);
        cfg.points = gen_points(rng, ntypes, 3, false, true);
        let len = rng.urange(5, 40);
        let mut script = gen_event_script(rng, &cfg, len);
        crate::verif::props::gen_out::sprinkle_splits(rng, &mut script);
        // "keeps being offered in later polls": most histories close with a poll for everything (unsolicited reporting switched
        // off first, so that the poll is answered from idle), which holds every event still owed
        if rng.chance(2, 3) {
            script.push(Op::Confirm {
                uns: true,
                seq: ConfSel::Expected,
                from: Who::Master,
            });
            script.push(simple_request(
                refapp::FUNC_DISABLE_UNSOL,
                vec![ReqHeader::all(60, 2), ReqHeader::all(60, 3), ReqHeader::all(60, 4)],
            ));
            script.push(read_op(vec![ReqHeader::all(60, 2), ReqHeader::all(60, 3), ReqHeader::all(60, 4)]));
        }
        SoutCase {
            cfg,
            ctrl: CtrlAnswers::AllSuccess,
            chunk: rng.below(5) as u8,
            chunk_seed: rng.next_u64(),
            script,
        }
    }

    fn shrink(&self, case: &SoutCase) -> Vec<SoutCase> {
        sout::shrink_case(case)
    }

    fn execute(&self, case: &SoutCase, log: bool) -> Outcome {
        // "unless displaced by an overflow that it reports": the indication half of that clause is C13's overflow rule, run
        // here on this scenario's histories as well
        sout::execute("C03", case, case.chunk_seed, log, |c| sout::WithSecond {
            a: LedgerOracle::new(c),
            b: crate::verif::props::c13::IinOracle::new(c),
            keep: |v| {
                if v.key == "overflow-bit not-set" {
                    Some(Violation::new(
                        "C03/discard-not-reported",
                        "overflow-indication-missing",
                        v.detail,
                    ))
                } else {
                    None
                }
            },
        })
    }
}

#[derive(Clone, Debug)]
struct Carrier {
    seq: u8,
    ids: Vec<u64>,
    confirmed: bool,
}

pub struct LedgerOracle {
    pub ledger: Ledger,
    sol: Option<Carrier>,
    unsol: Option<Carrier>,
    /// ids reported so far in the solicited series in progress, and the last sequence number
    series_max: Option<u64>,
    series_ids: BTreeSet<u64>,
    /// the latest solicited / unsolicited fragment (a byte-identical successor is a re-send)
    last_sol_bytes: Option<Vec<u8>>,
    last_unsol_bytes: Option<Vec<u8>>,
    unconfirmed_event_response: bool,
    /// (the step being judged, before it was cut into parts, contains a release)
    whole_step_has_end_confirm: bool,
    script_len: usize,
    /// (group, variation) pairs the master's last READ named explicitly (variation 0 and class headers name none)
    last_read_vars: BTreeSet<(u8, u8)>,
    nontrivial: bool,
    fp: u64,
    counters: BTreeMap<String, u64>,
}

impl LedgerOracle {
    pub fn new(case: &SoutCase) -> Self {
        Self {
            ledger: Ledger::new(&case.cfg),
            sol: None,
            unsol: None,
            series_max: None,
            series_ids: BTreeSet::new(),
            last_sol_bytes: None,
            last_unsol_bytes: None,
            unconfirmed_event_response: false,
            whole_step_has_end_confirm: false,
            script_len: case.script.len(),
            last_read_vars: BTreeSet::new(),
            nontrivial: false,
            fp: 0,
            counters: BTreeMap::new(),
        }
    }

    fn bump(&mut self, k: &str) {
        *self.counters.entry(k.to_string()).or_insert(0) += 1;
    }
}

impl LedgerOracle {
    fn step_in_order(&mut self, _world: &World, step: &Step) -> Option<Violation> {
        let live_at_start: BTreeSet<u64> = self.ledger.live().map(|e| e.id).collect();
        let newest_before_step: Option<u64> = self.ledger.events.keys().next_back().copied();
        if step.connected || step.disconnected {
            // no confirmation can arrive for responses of the old connection
            if self
                .sol
                .as_ref()
                .map(|c| !c.ids.is_empty())
                .unwrap_or(false)
                || self
                    .unsol
                    .as_ref()
                    .map(|c| !c.ids.is_empty())
                    .unwrap_or(false)
            {
                self.unconfirmed_event_response = true;
                self.bump("probe.reconnect_with_unconfirmed_events");
            }
            self.sol = None;
            self.unsol = None;
            self.series_max = None;
            self.series_ids.clear();
            self.last_sol_bytes = None;
            self.last_unsol_bytes = None;
        }

        // (a) user transactions of this step; discards take effect after the step's fragments were examined
        let mut discarded_now: Vec<u64> = Vec::new();
        for tl in &step.timeline {
            if let TL::Update {
                op,
                info,
                t_ms,
                at_lock,
                ..
            } = tl
            {
                let before: BTreeSet<u64> = self
                    .ledger
                    .events
                    .values()
                    .filter(|e| e.state == EvState::Discarded)
                    .map(|e| e.id)
                    .collect();
                if let Err(msg) = self.ledger.apply_update(op, *info, *t_ms) {
                    return Some(Violation::new(
                        "C03/vii update-info",
                        if msg.contains("oldest") {
                            "discard-not-oldest"
                        } else {
                            "bookkeeping"
                        },
                        format!("step {}: {}", step.op_index, msg),
                    ));
                }
                for e in self.ledger.events.values() {
                    if e.state == EvState::Discarded && !before.contains(&e.id) {
                        discarded_now.push(e.id);
                        self.counters
                            .entry("probe.overflow_discard".into())
                            .and_modify(|x| *x += 1)
                            .or_insert(1);
                        let carried = self
                            .sol
                            .as_ref()
                            .map(|c| c.ids.contains(&e.id))
                            .unwrap_or(false)
                            || self
                                .unsol
                                .as_ref()
                                .map(|c| c.ids.contains(&e.id))
                                .unwrap_or(false);
                        if carried {
                            self.counters
                                .entry("probe.overflow_hit_written_event".into())
                                .and_modify(|x| *x += 1)
                                .or_insert(1);
                        }
                    }
                }
                if *at_lock {
                    self.bump("probe.update_at_lock_point");
                }
            }
        }

        // a solicited response whose confirmation did not come in time is no longer awaiting it: an identical fragment sent
        // later is a new response (a READ repeated from idle is executed afresh), not a re-send
        if step
            .callbacks
            .iter()
            .any(|(_, cb)| matches!(cb, Cb::Info(s) if s.starts_with("solicited_confirm_timeout")))
        {
            self.sol = None;
            self.last_sol_bytes = None;
        }
        let sent_confirm: Option<(bool, u8)> =
            step.sent.as_ref().filter(|_| step.link_up).and_then(|s| {
                if s.bytes.len() == 2
                    && s.bytes[1] == refapp::FUNC_CONFIRM
                    && s.src == _world.cfg.master_addr
                    && s.bytes[0] & 0xC0 == 0xC0
                {
                    Some((s.bytes[0] & 0x10 != 0, s.bytes[0] & 0x0F))
                } else {
                    None
                }
            });
        // normally a CONFIRM releases the events of a response sent in an earlier step and the next fragment follows;
        // but the confirmed response may also have been transmitted earlier in this very step (e.g. an unsolicited
        // response triggered by a queued update, then the peer's CONFIRM): then the fragments are examined first
        let carrier_known = match sent_confirm {
            Some((true, seq)) => self.unsol.as_ref().map(|c| c.seq == seq).unwrap_or(false),
            Some((false, seq)) => self.sol.as_ref().map(|c| c.seq == seq).unwrap_or(false),
            None => true,
        };
        let phases: [u8; 2] = if carrier_known { [0, 1] } else { [1, 0] };
        let mut released_in_step = 0usize;
        let mut events_reported_in_step = 0usize;
        for phase in phases {
            if phase == 0 {
                // (b) releases
                let mut groups: Vec<(Vec<u64>, Option<([usize; 3], [usize; 8])>)> = Vec::new();
                let mut end_orders: Vec<u64> = Vec::new();
                let mut cur: Option<Vec<u64>> = None;
                for (ci, (_, cb)) in step.callbacks.iter().enumerate() {
                    if matches!(cb, Cb::EndConfirm { .. }) {
                        end_orders.push(step.callback_orders.get(ci).copied().unwrap_or(u64::MAX));
                    }
                    match cb {
                        Cb::BeginConfirm => cur = Some(Vec::new()),
                        Cb::EventCleared(id) => match cur.as_mut() {
                            Some(v) => v.push(*id),
                            None => {
                                return Some(Violation::new(
                                    "C03/iii event-cleared-outside-confirm",
                                    "",
                                    format!(
                                    "step {}: event_cleared({}) outside begin_confirm/end_confirm",
                                    step.op_index, id
                                ),
                                ))
                            }
                        },
                        Cb::EndConfirm { classes, types } => {
                            groups.push((cur.take().unwrap_or_default(), Some((*classes, *types))));
                        }
                        _ => {}
                    }
                }
                for (gi, (cleared, counts)) in groups.iter().enumerate() {
                    // user transactions of this step that ran after this end_confirm (at a later lock point): what they
                    // created did not exist yet, what they discarded still did
                    let end_order = end_orders.get(gi).copied().unwrap_or(u64::MAX);
                    let mut created_later: BTreeSet<u64> = BTreeSet::new();
                    let mut discarded_later: BTreeSet<u64> = BTreeSet::new();
                    for tl in &step.timeline {
                        if let TL::Update { info, order, .. } = tl {
                            if *order > end_order {
                                match info {
                                    crate::outstation::database::UpdateInfo::Created(id) => {
                                        created_later.insert(*id);
                                    }
                                    crate::outstation::database::UpdateInfo::Overflow { created, discarded } => {
                                        created_later.insert(*created);
                                        discarded_later.insert(*discarded);
                                    }
                                    _ => {}
                                }
                            }
                        }
                    }
                    let carrier_kind;
                    let expected: Vec<u64> = match sent_confirm {
                        Some((true, seq))
                            if self.unsol.as_ref().map(|c| c.seq == seq).unwrap_or(false) =>
                        {
                            carrier_kind = "unsolicited";
                            let c = self.unsol.as_mut().unwrap();
                            c.confirmed = true;
                            c.ids.clone()
                        }
                        Some((false, seq))
                            if self.sol.as_ref().map(|c| c.seq == seq).unwrap_or(false) =>
                        {
                            carrier_kind = "solicited";
                            let c = self.sol.as_mut().unwrap();
                            c.confirmed = true;
                            c.ids.clone()
                        }
                        Some(_) => {
                            carrier_kind = "no-matching-response";
                            Vec::new()
                        }
                        None => {
                            carrier_kind = "no-confirm-sent";
                            Vec::new()
                        }
                    };
                    let cleared_set: BTreeSet<u64> = cleared.iter().copied().collect();
                    // events discarded by an overflow after they were written cannot be cleared any more
                    let expected_set: BTreeSet<u64> = expected
                        .iter()
                        .copied()
                        .filter(|id| {
                            self.ledger
                                .events
                                .get(id)
                                .map(|e| e.state == EvState::Live || discarded_now.contains(id))
                                .unwrap_or(false)
                        })
                        .collect();
                    let expected_live: BTreeSet<u64> = expected_set
                        .iter()
                        .copied()
                        .filter(|id| self.ledger.events[id].state == EvState::Live)
                        .collect();
                    if cleared_set.len() != cleared.len() {
                        return Some(Violation::new(
                            "C03/iii released-twice",
                            "",
                            format!(
                                "step {}: ids cleared more than once: {:?}",
                                step.op_index, cleared
                            ),
                        ));
                    }
                    let extra: Vec<u64> = cleared_set
                        .iter()
                        .copied()
                        .filter(|id| !expected_set.contains(id))
                        .collect();
                    let missing: Vec<u64> = expected_live
                        .iter()
                        .copied()
                        .filter(|id| !cleared_set.contains(id))
                        .collect();
                    if !extra.is_empty() {
                        let other = if self
                            .unsol
                            .as_ref()
                            .map(|c| extra.iter().any(|i| c.ids.contains(i)))
                            .unwrap_or(false)
                            && carrier_kind != "unsolicited"
                        {
                            "events-of-unconfirmed-unsolicited"
                        } else if self
                            .sol
                            .as_ref()
                            .map(|c| extra.iter().any(|i| c.ids.contains(i)))
                            .unwrap_or(false)
                            && carrier_kind != "solicited"
                        {
                            "events-of-unconfirmed-solicited"
                        } else {
                            "events-carried-by-no-outstanding-response"
                        };
                        return Some(Violation::new(
                    "C03/iii-iv released-without-confirmed-carrier",
                    format!("confirmed={} released={}", carrier_kind, other),
                    format!(
                        "step {}: event ids {:?} were released (event_cleared) but the response confirmed in this step ({}) carried {:?}",
                        step.op_index, extra, carrier_kind, expected
                    ),
                ));
                    }
                    if !missing.is_empty() {
                        return Some(Violation::new(
                    "C03/iii confirmed-events-not-released",
                    carrier_kind,
                    format!("step {}: response confirmed but its events {:?} were not released (cleared {:?})", step.op_index, missing, cleared),
                ));
                    }
                    for id in &cleared_set {
                        match self.ledger.events.get_mut(id) {
                            Some(e) if e.state == EvState::Live => e.state = EvState::Released,
                            Some(e)
                                if e.state == EvState::Discarded && discarded_now.contains(id) =>
                            {
                                e.state = EvState::Released
                            }
                            Some(e) => {
                                return Some(Violation::new(
                                    "C03/iii released-not-live",
                                    format!("{:?}", e.state),
                                    format!(
                                        "step {}: event {} was cleared but its state is {:?}",
                                        step.op_index, id, e.state
                                    ),
                                ))
                            }
                            None => {
                                return Some(Violation::new(
                                    "C03/iii released-unknown-id",
                                    "",
                                    format!(
                                        "step {}: event_cleared({}) for an id never handed out",
                                        step.op_index, id
                                    ),
                                ))
                            }
                        }
                    }
                    released_in_step += cleared_set.len();
                    if carrier_kind == "solicited" {
                        self.sol = None;
                    } else if carrier_kind == "unsolicited" {
                        self.unsol = None;
                    }
                    if !cleared_set.is_empty() && self.unconfirmed_event_response {
                        self.nontrivial = true;
                    }
                    self.ledger.recompute_overflow_after_confirm();
                    // (vi) counts reported to the application
                    if let Some((classes, types)) = counts {
                        // discards of this step are already reflected in the library's counters
                        let mut want_c = [0usize; 3];
                        let mut want_t = [0usize; 8];
                        for e in self.ledger.events.values().filter(|e| {
                            (e.state == EvState::Live && !created_later.contains(&e.id))
                                || (e.state == EvState::Discarded && discarded_later.contains(&e.id))
                        }) {
                            if e.class >= 1 {
                                want_c[e.class as usize - 1] += 1;
                            }
                            want_t[type_slot(e.ptype)] += 1;
                        }
                        if *classes != want_c || *types != want_t {
                            return Some(Violation::new(
                        "C03/vi end-confirm-counts",
                        "",
                        format!(
                            "step {}: end_confirm reported classes {:?} types {:?}, ledger has classes {:?} types {:?}",
                            step.op_index, classes, types, want_c, want_t
                        ),
                    ));
                        }
                    }
                }
                // the outstation took the confirmation (it says so itself) of a response that carried events, and released nothing
                // at all: "only then is it released ... and the application told so"
                if groups.is_empty() && !self.whole_step_has_end_confirm {
                    let accepted: Option<(bool, u8)> = step.callbacks.iter().find_map(|(_, cb)| match cb {
                        Cb::Info(s) if s.starts_with("unsolicited_confirmed ") => {
                            s.split_whitespace().nth(1).and_then(|x| x.parse::<u8>().ok()).map(|q| (true, q))
                        }
                        Cb::Info(s) if s.starts_with("solicited_confirm_received ") => {
                            s.split_whitespace().nth(1).and_then(|x| x.parse::<u8>().ok()).map(|q| (false, q))
                        }
                        _ => None,
                    });
                    if let (Some((uns, q)), true) = (accepted, carrier_known && sent_confirm.is_some()) {
                        let carrier = if uns { self.unsol.as_ref() } else { self.sol.as_ref() };
                        if let Some(c) = carrier {
                            let still_live: Vec<u64> = c
                                .ids
                                .iter()
                                .copied()
                                .filter(|id| self.ledger.events.get(id).map(|e| e.state == EvState::Live).unwrap_or(false))
                                .collect();
                            if c.seq == q && sent_confirm == Some((uns, q)) && !still_live.is_empty() {
                                return Some(Violation::new(
                                    "C03/iii confirmed-events-not-released",
                                    if uns { "unsolicited no-release-at-all" } else { "solicited no-release-at-all" },
                                    format!(
                                        "step {}: the outstation accepted the confirmation of response seq {} which carried the events {:?}, but no begin_confirm/event_cleared/end_confirm followed",
                                        step.op_index, q, still_live
                                    ),
                                ));
                            }
                        }
                    }
                }
                if released_in_step > 0 {
                    self.bump("probe.events_released");
                }
            } else {
                // (c) transmitted fragments
                let req_seq = step
                    .sent
                    .as_ref()
                    .map(|s| s.bytes.first().copied().unwrap_or(0) & 0x0F);
                let is_read_from_master = step
                    .sent
                    .as_ref()
                    .map(|s| {
                        s.bytes.len() >= 2
                            && s.bytes[1] == refapp::FUNC_READ
                            && s.bytes[0] & 0xF0 == 0xC0
                            && s.src == _world.cfg.master_addr
                            && s.dest == _world.cfg.outstation_addr
                    })
                    .unwrap_or(false);
                if is_read_from_master && !matches!(step.op, Op::Repeat) {
                    self.last_read_vars.clear();
                    if let Some(sent) = &step.sent {
                        if let Ok((headers, _)) = refapp::decode_objects(&sent.bytes[2..], false) {
                            for h in &headers {
                                if h.var != 0 && h.group != 60 {
                                    self.last_read_vars.insert((h.group, h.var));
                                }
                            }
                        }
                    }
                }
                if is_read_from_master && step.op_index == self.script_len {
                    self.bump("probe.closing_poll_sent");
                    if step.received.is_empty() {
                        self.bump("probe.closing_poll_got_nothing");
                    }
                }
                for rx in &step.received {
                    let frag = match &rx.frag {
                        Some(f) => f,
                        None => continue, // C12 judges undecodable fragments
                    };
                    if is_read_from_master && step.op_index == self.script_len && frag.func == refapp::FUNC_RESPONSE {
                        self.bump(if frag.ctrl.fir && frag.ctrl.fin { "probe.closing_poll_answered_in_one_fragment" } else { "probe.closing_poll_answered_in_several_fragments" });
                    }
                    if frag.func != refapp::FUNC_RESPONSE
                        && frag.func != refapp::FUNC_UNSOL_RESPONSE
                    {
                        continue;
                    }
                    let is_unsol_frag = frag.func == refapp::FUNC_UNSOL_RESPONSE;
                    let last = if is_unsol_frag {
                        &mut self.last_unsol_bytes
                    } else {
                        &mut self.last_sol_bytes
                    };
                    let same_bytes = last.as_ref() == Some(&rx.bytes);
                    *last = Some(rx.bytes.clone());
                    // (the byte-identical answer to a retransmitted READ during a confirm wait is an echo, not a new selection)
                    let echo_of_previous = same_bytes && matches!(step.op, Op::Repeat);
                    // a genuine re-send repeats a response that is still awaiting confirmation; identical octets after the
                    // carrier was confirmed are a new response that happens to encode the same
                    let carrier_outstanding = if is_unsol_frag {
                        self.unsol.as_ref()
                    } else {
                        self.sol.as_ref()
                    }
                    .map(|c| !c.confirmed && c.seq == frag.ctrl.seq)
                    .unwrap_or(false);
                    let resend = same_bytes && carrier_outstanding;
                    let meas = refapp::measurements(frag);
                    let events: Vec<&refapp::Meas> = meas.iter().filter(|m| m.is_event).collect();
                    if resend && !events.is_empty() {
                        // an identical fragment was already transmitted in this session (echo or unsolicited retry, see C05);
                        // its events were accounted for the first time
                        self.bump("probe.fragment_resent");
                        continue;
                    }
                    let unsol = frag.func == refapp::FUNC_UNSOL_RESPONSE;
                    let newest_at_write = crate::verif::sout::newest_event_at_write(
                        step,
                        rx.order,
                        newest_before_step,
                    );
                    // (i) every reported event is a live recorded event with exactly the recorded contents (several recorded events
                    // may carry identical contents: see `match_events_before` for the readings tried)
                    let ids: Vec<u64> = match crate::verif::models::ledger::match_events_before(
                        &self.ledger,
                        &events,
                        &discarded_now,
                        newest_at_write,
                    ) {
                        Ok(ids) => ids,
                        Err(bad) => {
                            let m = events[bad];
                                let same_point: Vec<String> = self
                                    .ledger
                                    .events
                                    .values()
                                    .filter(|e| e.ptype == m.ptype && e.index as u32 == m.index)
                                    .map(|e| {
                                        format!(
                                            "#{} {:?} v={} f={:#04x} t={}",
                                            e.id, e.state, e.value, e.flags, e.time
                                        )
                                    })
                                    .collect();
                                let kind = if same_point.is_empty() {
                                    "no-event-of-that-point"
                                } else if self
                                    .ledger
                                    .events
                                    .values()
                                    .any(|e| e.state != EvState::Live && Ledger::matches(e, m))
                                {
                                    "matches-only-released-or-discarded-event"
                                } else {
                                    "contents-differ-from-recorded"
                                };
                                return Some(Violation::new(
                            "C03/i reported-event-not-in-ledger",
                            kind,
                            format!(
                                "step {}: fragment reports {:?}[{}] g{}v{} value {:?} flags {:?} time {:?} which matches no live recorded event; events of that point: {:?}",
                                step.op_index, m.ptype, m.index, m.group, m.var, m.value, m.flags, m.time, same_point
                            ),
                        ));
                        }
                    };
                    // (i') "with exactly the ... flags and time they were recorded with": the variation an event is reported in must not
                    // drop the time or the flags that the point's configured event variation carries - unless the master asked
                    // for that very variation (a variation left over from an earlier, unconfirmed READ is not what was asked for)
                    for (m, id) in events.iter().zip(ids.iter()) {
                        let Some(e) = self.ledger.events.get(id).map(|e| (e.ptype, e.index)) else { continue };
                        let e = crate::verif::nodes::outstation::PointCfg { ptype: e.0, index: e.1, class: 0, svar: 0, evar: 0, deadband: 0 };
                        let Some(p) = _world.cfg.points.iter().find(|p| p.ptype == e.ptype && p.index == e.index) else { continue };
                        let (Some(conf), Some(used)) = (refapp::layout(m.group, p.evar), refapp::layout(m.group, m.var)) else { continue };
                        let asked_for = !unsol && self.last_read_vars.contains(&(m.group, m.var));
                        if asked_for || m.var == p.evar {
                            continue;
                        }
                        self.bump("probe.event_reported_in_unconfigured_variation");
                        let loses_time = conf.time != refapp::TimeField::None && used.time == refapp::TimeField::None;
                        let loses_flags = conf.flags && !used.flags;
                        if loses_time || loses_flags {
                            return Some(Violation::new(
                                "C03/i event-reported-without-what-was-recorded",
                                if loses_time { "time-dropped-by-variation" } else { "flags-dropped-by-variation" },
                                format!(
                                    "step {}: event {} ({:?}[{}]) is reported as g{}v{} although the point is configured for g{}v{} and the master did not ask for that variation: the recorded {} does not reach it",
                                    step.op_index, id, e.ptype, e.index, m.group, m.var, m.group, p.evar,
                                    if loses_time { "time" } else { "flag octet" }
                                ),
                            ));
                        }
                    }
                    // (ii) oldest first
                    for w in ids.windows(2) {
                        if w[1] < w[0] {
                            return Some(Violation::new(
                                "C03/ii not-oldest-first",
                                "within-fragment",
                                format!(
                                    "step {}: events reported in the order {:?}",
                                    step.op_index, ids
                                ),
                            ));
                        }
                    }
                    if !unsol {
                        if frag.ctrl.fir {
                            self.series_max = None;
                            self.series_ids.clear();
                        } else if let (Some(prev), Some(first)) = (self.series_max, ids.first()) {
                            if *first < prev {
                                return Some(Violation::new(
                            "C03/ii not-oldest-first",
                            "across-fragments",
                            format!("step {}: fragment starts with event {} after an earlier fragment of the series reported {}", step.op_index, first, prev),
                        ));
                            }
                        }
                    }
                    // (v) no older live event of the same type and class may be skipped
                    let in_series: BTreeSet<u64> = if unsol {
                        BTreeSet::new()
                    } else {
                        self.series_ids.clone()
                    };
                    for id in &ids {
                        let e = &self.ledger.events[id];
                        let skipped = self
                            .ledger
                            .events
                            .values()
                            .filter(|o| {
                                o.state == EvState::Live
                                    && o.id < e.id
                                    && o.ptype == e.ptype
                                    && o.class == e.class
                            })
                            .filter(|o| !ids.contains(&o.id) && !in_series.contains(&o.id))
                            .filter(|o| live_at_start.contains(&o.id))
                            .map(|o| o.id)
                            .next();
                        if let Some(o) = skipped {
                            let hidden_by = if self
                                .unsol
                                .as_ref()
                                .map(|c| c.ids.contains(&o))
                                .unwrap_or(false)
                            {
                                "older-event-written-by-unconfirmed-unsolicited"
                            } else if self
                                .sol
                                .as_ref()
                                .map(|c| c.ids.contains(&o))
                                .unwrap_or(false)
                            {
                                "older-event-written-by-unconfirmed-solicited"
                            } else {
                                "older-event-skipped"
                            };
                            return Some(Violation::new(
                        "C03/v unreleased-event-not-offered-again",
                        hidden_by,
                        format!(
                            "step {}: event {} ({:?}[{}] class {}) is reported while the older live event {} of the same type and class is skipped",
                            step.op_index, id, e.ptype, e.index, e.class, o
                        ),
                    ));
                        }
                    }
                    // (v') a complete single-fragment answer to an unlimited class READ carries every live event of that class
                    if !unsol
                        && is_read_from_master
                        && !echo_of_previous
                        && Some(frag.ctrl.seq) == req_seq
                        && frag.ctrl.fir
                        && frag.ctrl.fin
                    {
                        if let Some(sent) = &step.sent {
                            if let Ok((headers, _)) =
                                refapp::decode_objects(&sent.bytes[2..], false)
                            {
                                for h in &headers {
                                    if h.group == 60
                                        && (2..=4).contains(&h.var)
                                        && h.qualifier == 0x06
                                    {
                                        let class = h.var - 1;
                                        let missing: Vec<u64> = self
                                            .ledger
                                            .events
                                            .values()
                                            .filter(|e| {
                                                e.state == EvState::Live
                                                    && e.class == class
                                                    && live_at_start.contains(&e.id)
                                                    && !ids.contains(&e.id)
                                            })
                                            .map(|e| e.id)
                                            .collect();
                                        if !missing.is_empty() {
                                            let why = if self
                                                .unsol
                                                .as_ref()
                                                .map(|c| missing.iter().any(|i| c.ids.contains(i)))
                                                .unwrap_or(false)
                                            {
                                                "written-by-unconfirmed-unsolicited"
                                            } else {
                                                "not-offered"
                                            };
                                            return Some(Violation::new(
                                        "C03/v class-poll-omits-live-events",
                                        why,
                                        format!(
                                            "step {}: complete response to READ class {} reports {:?} but live events {:?} of that class are missing",
                                            step.op_index, class, ids, missing
                                        ),
                                    ));
                                        }
                                    }
                                }
                            }
                        }
                    }
                    // (v'') the same for count-limited and by-type event READs: a complete single-fragment answer carries, header by
                    // header, the oldest events that match (up to the count) and have not been taken by an earlier header
                    if !unsol
                        && is_read_from_master
                        && !echo_of_previous
                        && Some(frag.ctrl.seq) == req_seq
                        && frag.ctrl.fir
                        && frag.ctrl.fin
                        && discarded_now.is_empty()
                    {
                        if let Some(sent) = &step.sent {
                            if let Ok((headers, _)) =
                                refapp::decode_objects(&sent.bytes[2..], false)
                            {
                                let mut modelled = true;
                                let mut taken: Vec<u64> = Vec::new();
                                for h in &headers {
                                    let limit: Option<usize> = match h.qualifier {
                                        0x06 => None,
                                        0x07 | 0x08 => Some(h.count),
                                        _ => {
                                            // ranges etc.: only static objects can be addressed that way
                                            if h.group == 60
                                                || refapp::ALL_TYPES.iter().any(|t| {
                                                    crate::verif::nodes::outstation::event_group(*t)
                                                        == h.group
                                                })
                                            {
                                                modelled = false;
                                            }
                                            continue;
                                        }
                                    };
                                    let by_class = if h.group == 60 && (2..=4).contains(&h.var) {
                                        Some(h.var - 1)
                                    } else {
                                        None
                                    };
                                    let by_type = refapp::ALL_TYPES.iter().copied().find(|t| {
                                        crate::verif::nodes::outstation::event_group(*t) == h.group
                                            && h.group != 60
                                    });
                                    if by_class.is_none() && by_type.is_none() {
                                        continue;
                                    }
                                    let mut cands: Vec<u64> = self
                                        .ledger
                                        .events
                                        .values()
                                        .filter(|e| {
                                            e.state == EvState::Live
                                                && live_at_start.contains(&e.id)
                                                && !taken.contains(&e.id)
                                        })
                                        .filter(|e| {
                                            by_class.map(|c| e.class == c).unwrap_or(true)
                                                && by_type.map(|t| e.ptype == t).unwrap_or(true)
                                        })
                                        .map(|e| e.id)
                                        .collect();
                                    cands.sort();
                                    if let Some(l) = limit {
                                        cands.truncate(l);
                                    }
                                    taken.extend(cands);
                                }
                                if modelled {
                                    self.bump("probe.complete_event_read_judged");
                                    if matches!(step.op, Op::Request { .. }) && step.op_index == self.script_len {
                                        self.bump("probe.closing_poll_judged");
                                    }
                                    let missing: Vec<u64> = taken
                                        .iter()
                                        .copied()
                                        .filter(|id| !ids.contains(id))
                                        .collect();
                                    if !missing.is_empty() {
                                        self.bump("probe.limited_read_checked");
                                        return Some(Violation::new(
                                    "C03/v event-read-omits-live-events",
                                    if headers.iter().any(|h| matches!(h.qualifier, 0x07 | 0x08)) { "count-limited" } else { "unlimited" },
                                    format!(
                                        "step {}: complete response to the event READ reports {:?}; header by header the oldest matching live events are {:?}; missing {:?}",
                                        step.op_index, ids, taken, missing
                                    ),
                                ));
                                    }
                                    if headers.iter().any(|h| matches!(h.qualifier, 0x07 | 0x08)) {
                                        self.bump("probe.limited_read_checked");
                                    }
                                }
                            }
                        }
                    }
                    events_reported_in_step += ids.len();
                    if !unsol {
                        if let Some(m) = ids.last() {
                            self.series_max = Some(*m);
                        }
                        self.series_ids.extend(ids.iter().copied());
                    }
                    if frag.ctrl.con {
                        // a response that replaces an unconfirmed one leaves the old one's events unreleased
                        let slot = if unsol {
                            &mut self.unsol
                        } else {
                            &mut self.sol
                        };
                        if let Some(old) = slot {
                            if !old.confirmed && !old.ids.is_empty() {
                                self.unconfirmed_event_response = true;
                            }
                        }
                        *slot = Some(Carrier {
                            seq: frag.ctrl.seq,
                            ids: ids.clone(),
                            confirmed: false,
                        });
                    } else if !unsol {
                        self.sol = None;
                    }
                }
            }
        }
        // the confirm time-out of a solicited response that was itself transmitted within this step (a long wait): the carrier
        // is abandoned if the time-out came after its last solicited fragment
        {
            let last_sol_order = step
                .received
                .iter()
                .filter(|r| r.frag.as_ref().map(|f| f.func == refapp::FUNC_RESPONSE).unwrap_or(false))
                .map(|r| r.order)
                .max();
            let timed_out_later = step.callbacks.iter().enumerate().any(|(i, (_, cb))| {
                matches!(cb, Cb::Info(s) if s.starts_with("solicited_confirm_timeout"))
                    && last_sol_order
                        .map(|o| step.callback_orders.get(i).copied().unwrap_or(0) > o)
                        .unwrap_or(false)
            });
            if timed_out_later {
                self.sol = None;
                self.last_sol_bytes = None;
            }
        }
        if events_reported_in_step > 0 {
            self.bump("probe.events_reported");
        }
        // a wait that lets a carrier time out
        if let Op::Sleep(_) | Op::SleepRel { .. } = step.op {
            if self
                .sol
                .as_ref()
                .map(|c| !c.ids.is_empty())
                .unwrap_or(false)
                || self
                    .unsol
                    .as_ref()
                    .map(|c| !c.ids.is_empty())
                    .unwrap_or(false)
            {
                self.unconfirmed_event_response = true;
                self.bump("probe.wait_with_unconfirmed_events");
            }
        }

        // (d) nothing else to do for discards: they were applied in (a)
        let kind = match &step.op {
            Op::Update(_) => 1,
            Op::UpdateAtLock { .. } => 2,
            Op::Request { func, .. } => 10 + *func as u64,
            Op::Confirm { uns, .. } => 40 + *uns as u64,
            Op::Repeat => 50,
            Op::Sleep(_) | Op::SleepRel { .. } => 51,
            Op::Disconnect { .. } => 52,
            Op::Connect => 53,
            _ => 60,
        };
        self.fp = mix(&[
            self.fp,
            kind,
            events_reported_in_step.min(3) as u64,
            released_in_step.min(3) as u64,
            self.sol.is_some() as u64 * 2 + self.unsol.is_some() as u64,
            discarded_now.len().min(2) as u64,
        ]);
        None
    }
}

impl Oracle for LedgerOracle {
    fn step(&mut self, world: &World, step: &Step) -> Option<Violation> {
        // transactions injected at lock points in the middle of a step: judge what came before them first
        self.whole_step_has_end_confirm = step.callbacks.iter().any(|(_, cb)| matches!(cb, Cb::EndConfirm { .. }));
        for sub in sout::split_at_lock_updates(step) {
            if let Some(v) = self.step_in_order(world, &sub) {
                return Some(v);
            }
        }
        None
    }

    fn nontrivial(&self) -> bool {
        self.nontrivial
    }

    fn fingerprint(&self) -> u64 {
        self.fp
    }

    fn counters(&self) -> Vec<(String, u64)> {
        self.counters.iter().map(|(k, v)| (k.clone(), *v)).collect()
    }
}
