//! C07, application part (engine S-OUT): an outstation executes and answers application fragments
//! only from its configured master (unless told to accept any master) and transmits nothing in
//! reply to a broadcast, well-formed or not - in every session state.

use crate::verif::nodes::outstation::{Cb, CtrlAnswers};
use crate::verif::props::c05::gen_executed_request;
use crate::verif::props::gen_out::*;
use crate::verif::refcodec::app::{self as refapp};
use crate::verif::rng::{mix, Rng};
use crate::verif::runner::{Outcome, Scenario, Tier, Violation};
use crate::verif::sout::{self, ConfSel, Dest, Op, Oracle, SoutCase, Step, Who, World};
use std::collections::BTreeMap;

pub struct AppAddrScenario;

impl Scenario for AppAddrScenario {
    type Case = SoutCase;

    fn name(&self) -> &'static str {
        "app"
    }

    fn runs(&self, tier: Tier) -> u64 {
        match tier {
            Tier::Quick => 90_000,
            Tier::Thorough => 2_400_000,
        }
    }

    fn rule(&self) -> String {
        "application fragments (valid requests of every executed function, unsupported/unknown function codes, bad FIR/FIN/CON/UNS flags, truncated fragments, \
         garbage objects) sent from a foreign master address or to one of the three broadcast addresses (from the configured or a foreign master) while the \
         outstation is idle, in a solicited confirm wait or in an unsolicited confirm wait, with respond_to_any_master / broadcast / self-address on and off; \
         oracle: no solicited response and no link reply in the step of a broadcast; no response and no mutating callback for a foreign master unless any-master \
         is on (then the reply goes to the sender); non-trivial = a fragment that must be ignored arrived in a non-idle state; distinct = hash of \
         (source class, destination class, fragment class, session state, features)"
            .to_string()
    }

    fn real_components(&self) -> Vec<&'static str> {
        vec![
            "outstation::session::OutstationSession (classify, broadcast processing, error responses)",
            "transport::reader::TransportReader::pop_request (master address filter)",
            "transport::real::assembler (broadcast fragments)",
            "link::layer::Layer",
        ]
    }

    fn stub_components(&self) -> Vec<&'static str> {
        vec![
            "physical layer (SimSocket)",
            "TCP accept loop",
            "user callbacks (recording stubs)",
            "scripted peers (reference codec)",
        ]
    }

    fn generate(&self, rng: &mut Rng, _tier: Tier) -> SoutCase {
        let mut cfg = gen_event_cfg(rng);
        cfg.any_master = rng.chance(1, 4);
        cfg.broadcast = rng.chance(3, 4);
        cfg.self_address = rng.chance(1, 4);
        cfg.event_buffers = [10; 8];
        let ntypes = rng.urange(1, 2);
        cfg.points = gen_points(rng, ntypes, 2, false, false);
        let mut clock = 9_000_000u64;
        let mut script = Vec::new();
        if cfg.unsolicited && rng.chance(2, 3) {
            script.push(Op::Confirm {
                uns: true,
                seq: ConfSel::Expected,
                from: Who::Master,
            });
            if rng.bool() {
                script.push(unsol_op(rng, true));
            }
        }
        let n = rng.urange(2, 12);
        for _ in 0..n {
            // state
            match rng.below(6) {
                0 => {
                    let mut u = gen_update(rng, &cfg.points, &mut clock);
                    u.event_mode = 1;
                    script.push(Op::Update(u));
                    script.push(read_op(vec![
                        class_header(1, None),
                        class_header(2, None),
                        class_header(3, None),
                    ]));
                }
                1 => {
                    let mut u = gen_update(rng, &cfg.points, &mut clock);
                    u.event_mode = 1;
                    script.push(Op::Update(u));
                }
                2 => script.push(Op::Confirm {
                    uns: rng.bool(),
                    seq: ConfSel::Expected,
                    from: Who::Master,
                }),
                3 => {
                    // the confirmation that is awaited - but from another master
                    script.push(Op::Confirm {
                        uns: rng.bool(),
                        seq: ConfSel::Expected,
                        from: Who::Foreign(*rng.pick(&[2u16, 7, 1023, 65519])),
                    });
                }
                _ => {}
            }
            let from = if rng.chance(2, 3) {
                Who::Foreign(*rng.pick(&[2u16, 7, 1023, 65519]))
            } else {
                Who::Master
            };
            let to = match rng.below(6) {
                0 | 1 => Dest::Own,
                2 => Dest::Bcast(0xFFFF),
                3 => Dest::Bcast(0xFFFE),
                4 => Dest::Bcast(0xFFFD),
                _ => Dest::SelfAddr,
            };
            let op = match rng.below(8) {
                0..=3 => {
                    let mut op = gen_executed_request(rng, &cfg.points, to.clone());
                    if let Op::Request { from: f, .. } = &mut op {
                        *f = from.clone();
                    }
                    op
                }
                4 => Op::Raw {
                    bytes: vec![
                        0xC0 | rng.below(16) as u8,
                        *rng.pick(&[0x70u8, 0x22, 0x7F, 0x10, 0x19]),
                    ],
                    from: from.clone(),
                    to: to.clone(),
                },
                5 => {
                    // bad header flags on a request
                    let flags = *rng.pick(&[0x80u8, 0x40, 0x00, 0xD0, 0xE0, 0x90]);
                    Op::Raw {
                        bytes: vec![
                            flags | rng.below(16) as u8,
                            *rng.pick(&[1u8, 2, 5, 23]),
                            0x3C,
                            0x01,
                            0x06,
                        ],
                        from: from.clone(),
                        to: to.clone(),
                    }
                }
                6 => Op::Raw {
                    bytes: vec![0xC0 | rng.below(16) as u8],
                    from: from.clone(),
                    to: to.clone(),
                },
                _ => {
                    let mut bytes = vec![0xC0 | rng.below(16) as u8, *rng.pick(&[1u8, 2, 3, 5])];
                    let n = rng.urange(1, 20);
                    bytes.extend(rng.bytes(n));
                    Op::Raw {
                        bytes,
                        from: from.clone(),
                        to: to.clone(),
                    }
                }
            };
            script.push(op);
            if rng.chance(1, 5) {
                // a request split into two transport segments that come from different link sources (the second one from the
                // configured master): it is not a fragment of the configured master and must not be executed or answered
                if let Op::Request { func, headers, .. } =
                    gen_executed_request(rng, &cfg.points, Dest::Own)
                {
                    let bytes = refapp::build_request(
                        refapp::Ctrl::request(rng.below(16) as u8),
                        func,
                        &headers,
                    );
                    if bytes.len() >= 2 {
                        let cut = rng.urange(1, bytes.len() - 1);
                        let tseq = rng.below(64) as u8;
                        let foreign = *rng.pick(&[2u16, 7, 1023, 65519]);
                        let (first_src, second_src) = if rng.chance(3, 4) {
                            (foreign, cfg.master_addr)
                        } else {
                            (cfg.master_addr, foreign)
                        };
                        let mut wire = Vec::new();
                        let mut p1 = vec![0x40 | tseq];
                        p1.extend_from_slice(&bytes[..cut]);
                        let mut p2 = vec![0x80 | ((tseq + 1) & 0x3F)];
                        p2.extend_from_slice(&bytes[cut..]);
                        wire.extend(crate::verif::refcodec::link::build_frame(
                            &crate::verif::refcodec::link::RefFrame {
                                ctrl: 0xC4,
                                dest: cfg.outstation_addr,
                                src: first_src,
                                payload: p1,
                            },
                        ));
                        wire.extend(crate::verif::refcodec::link::build_frame(
                            &crate::verif::refcodec::link::RefFrame {
                                ctrl: 0xC4,
                                dest: cfg.outstation_addr,
                                src: second_src,
                                payload: p2,
                            },
                        ));
                        script.push(Op::WireBytes(wire));
                    }
                }
            }
            if rng.chance(1, 4) {
                // a legitimate request afterwards: the outstation keeps serving its master
                script.push(simple_request(refapp::FUNC_DELAY_MEASURE, vec![]));
            }
        }
        SoutCase {
            cfg,
            ctrl: CtrlAnswers::AllSuccess,
            chunk: rng.below(5) as u8,
            chunk_seed: rng.next_u64(),
            script,
        }
    }

    fn shrink(&self, case: &SoutCase) -> Vec<SoutCase> {
        sout::shrink_case(case)
    }

    fn execute(&self, case: &SoutCase, log: bool) -> Outcome {
        sout::execute("C07", case, case.chunk_seed, log, |c| AddrOracle::new(c))
    }
}

pub struct AddrOracle {
    master: u16,
    own: u16,
    any_master: bool,
    self_address: bool,
    broadcast: bool,
    sol_wait: bool,
    unsol_wait: bool,
    nontrivial: bool,
    fp: u64,
    counters: BTreeMap<String, u64>,
}

impl AddrOracle {
    pub fn new(case: &SoutCase) -> Self {
        Self {
            master: case.cfg.master_addr,
            own: case.cfg.outstation_addr,
            any_master: case.cfg.any_master,
            self_address: case.cfg.self_address,
            broadcast: case.cfg.broadcast,
            sol_wait: false,
            unsol_wait: false,
            nontrivial: false,
            fp: 0,
            counters: BTreeMap::new(),
        }
    }

    fn bump(&mut self, k: &str) {
        *self.counters.entry(k.to_string()).or_insert(0) += 1;
    }
}

impl Oracle for AddrOracle {
    fn step(&mut self, _world: &World, step: &Step) -> Option<Violation> {
        if step.connected || step.disconnected {
            self.sol_wait = false;
            self.unsol_wait = false;
        }
        let state = if self.sol_wait {
            1
        } else if self.unsol_wait {
            2
        } else {
            0
        };
        let mut violation = None;
        if let (Op::WireBytes(wire), true) = (&step.op, step.link_up) {
            // user-data frames of one step that come from different link sources never make up a fragment of the master
            let mut sources: Vec<u16> = Vec::new();
            let mut pos = 0usize;
            while pos < wire.len() {
                match crate::verif::refcodec::link::candidate(&wire[pos..]) {
                    crate::verif::refcodec::link::Candidate::Frame(f, len) => {
                        if f.ctrl & 0x0F == 0x04 && f.dest == self.own {
                            sources.push(f.src);
                        }
                        pos += len;
                    }
                    _ => break,
                }
            }
            sources.dedup();
            if sources.len() >= 2 && !self.any_master {
                self.bump("probe.fragment_from_mixed_sources");
                if state != 0 {
                    self.nontrivial = true;
                }
                let sol: Vec<&crate::verif::nodes::peer::RxFragment> = step
                    .received
                    .iter()
                    .filter(|r| r.bytes.len() >= 2 && r.bytes[1] == refapp::FUNC_RESPONSE)
                    .collect();
                let mutating: Vec<&Cb> = step
                    .callbacks
                    .iter()
                    .map(|c| &c.1)
                    .filter(|c| c.is_mutating())
                    .collect();
                if !mutating.is_empty() || !sol.is_empty() {
                    violation = Some(Violation::new(
                        "C07/app foreign-master-executed",
                        "segments-from-different-sources",
                        format!(
                            "step {}: transport segments from link sources {:?} were put together and the fragment was acted on: callbacks {:?}, {} response(s)",
                            step.op_index,
                            sources,
                            mutating,
                            sol.len()
                        ),
                    ));
                }
            }
        }
        if let (Some(s), true) = (&step.sent, step.link_up) {
            let bcast = s.dest >= 0xFFFD;
            let to_us = s.dest == self.own || (s.dest == 0xFFFC && self.self_address);
            let foreign = s.src != self.master;
            let sol: Vec<&crate::verif::nodes::peer::RxFragment> = step
                .received
                .iter()
                .filter(|r| r.bytes.len() >= 2 && r.bytes[1] == refapp::FUNC_RESPONSE)
                .collect();
            let mutating: Vec<&Cb> = step
                .callbacks
                .iter()
                .map(|c| &c.1)
                .filter(|c| c.is_mutating())
                .collect();
            let class = if s.bytes.len() < 2 {
                0
            } else if s.bytes[0] & 0xF0 != 0xC0 {
                1
            } else if refapp::decode_fragment(&s.bytes).is_err() {
                2
            } else {
                3
            };
            if bcast {
                // nothing is transmitted in reply to a broadcast: no solicited response, no link reply
                if state != 0 {
                    self.nontrivial = true;
                }
                self.bump("probe.broadcast_fragment");
                if let Some(r) = sol.first() {
                    violation = Some(Violation::new(
                        "C07/app broadcast-answered",
                        format!("{} fragment-class={}", if foreign { "foreign-master" } else { "configured-master" }, ["too-short", "bad-flags", "undecodable", "well-formed"][class]),
                        format!(
                            "step {}: fragment {} sent to broadcast address {:#06x} from {} was answered with {} (to {})",
                            step.op_index,
                            crate::verif::io::hex(&s.bytes[..s.bytes.len().min(24)]),
                            s.dest,
                            s.src,
                            crate::verif::io::hex(&r.bytes[..r.bytes.len().min(24)]),
                            r.dest
                        ),
                    ));
                } else if !step.link_frames.is_empty() {
                    violation = Some(Violation::new(
                        "C07/app broadcast-link-reply",
                        "",
                        format!(
                            "step {}: link frames {:?} transmitted in the step of a broadcast",
                            step.op_index, step.link_frames
                        ),
                    ));
                } else if !self.broadcast && !mutating.is_empty() {
                    violation = Some(Violation::new(
                        "C07/app broadcast-executed-although-disabled",
                        "",
                        format!(
                            "step {}: broadcast support is switched off, yet the broadcast from {} caused {:?}",
                            step.op_index, s.src, mutating
                        ),
                    ));
                } else if foreign && !self.any_master && !mutating.is_empty() {
                    violation = Some(Violation::new(
                        "C07/app foreign-master-executed",
                        "broadcast",
                        format!(
                            "step {}: broadcast from foreign master {} caused {:?}",
                            step.op_index, s.src, mutating
                        ),
                    ));
                }
            } else if to_us && foreign {
                if state != 0 {
                    self.nontrivial = true;
                }
                self.bump("probe.foreign_master_fragment");
                if !self.any_master {
                    if let Some(r) = sol.first() {
                        violation = Some(Violation::new(
                            "C07/app foreign-master-answered",
                            format!("fragment-class={}", ["too-short", "bad-flags", "undecodable", "well-formed"][class]),
                            format!(
                                "step {}: fragment {} from master {} (configured master {}) was answered with {} (to {})",
                                step.op_index,
                                crate::verif::io::hex(&s.bytes[..s.bytes.len().min(24)]),
                                s.src,
                                self.master,
                                crate::verif::io::hex(&r.bytes[..r.bytes.len().min(24)]),
                                r.dest
                            ),
                        ));
                    } else if let Some(effect) = step.callbacks.iter().map(|c| &c.1).find(|cb| {
                        // a confirmation from another master confirms nothing: no release, no end of a confirm wait
                        matches!(cb, Cb::EventCleared(_) | Cb::BeginConfirm | Cb::EndConfirm { .. })
                            || matches!(cb, Cb::Info(i) if i.starts_with("solicited_confirm_received") || i.starts_with("unsolicited_confirmed"))
                    }) {
                        violation = Some(Violation::new(
                            "C07/app foreign-master-executed",
                            "confirm",
                            format!(
                                "step {}: fragment {} from foreign master {} was taken as a confirmation ({:?})",
                                step.op_index,
                                crate::verif::io::hex(&s.bytes[..s.bytes.len().min(8)]),
                                s.src,
                                effect
                            ),
                        ));
                    } else if !mutating.is_empty() {
                        violation = Some(Violation::new(
                            "C07/app foreign-master-executed",
                            "unicast",
                            format!(
                                "step {}: fragment from foreign master {} caused {:?}",
                                step.op_index, s.src, mutating
                            ),
                        ));
                    }
                } else {
                    // any-master: the reply goes to the sender (a CONFIRM is not a request: what follows it is not its reply)
                    let is_confirm = s.bytes.len() >= 2 && s.bytes[1] == refapp::FUNC_CONFIRM;
                    for r in &sol {
                        if !is_confirm
                            && r.bytes[0] & 0x0F == s.bytes.first().copied().unwrap_or(0) & 0x0F
                            && r.bytes[0] & 0x80 != 0
                            && r.dest != s.src
                        {
                            violation = Some(Violation::new(
                                "C07/app reply-not-addressed-to-sender",
                                "",
                                format!(
                                    "step {}: request from {} answered to {}",
                                    step.op_index, s.src, r.dest
                                ),
                            ));
                        }
                    }
                }
            }
            self.fp = mix(&[
                self.fp,
                bcast as u64,
                foreign as u64,
                class as u64,
                state as u64,
                self.any_master as u64,
                to_us as u64,
            ]);
        }
        // session state for the next step
        for (_, cb) in &step.callbacks {
            if let Cb::Info(s) = cb {
                if s.starts_with("enter_solicited_confirm_wait") {
                    self.sol_wait = true;
                } else if s.starts_with("solicited_confirm") {
                    self.sol_wait = false;
                } else if s.starts_with("enter_unsolicited_confirm_wait") {
                    self.unsol_wait = true;
                } else if s.starts_with("unsolicited_confirmed")
                    || (s.starts_with("unsolicited_confirm_timeout") && s.ends_with("false"))
                {
                    self.unsol_wait = false;
                }
            }
        }
        violation
    }

    fn nontrivial(&self) -> bool {
        self.nontrivial
    }

    fn fingerprint(&self) -> u64 {
        self.fp
    }

    fn counters(&self) -> Vec<(String, u64)> {
        self.counters.iter().map(|(k, v)| (k.clone(), *v)).collect()
    }
}
