//! C14 - unsolicited reporting obeys the start-up, enable, retry and deferral rules (engine S-OUT).
//!
//! A temporal monitor over the wire (virtual timestamps, world-wide event order).

use crate::outstation::database::UpdateInfo;
use crate::verif::models::ledger::{match_events, EvState, Ledger};
use crate::verif::nodes::outstation::{Cb, CtrlAnswers};
use crate::verif::props::c05::gen_executed_request;
use crate::verif::props::gen_out::*;
use crate::verif::refcodec::app::{self as refapp};
use crate::verif::rng::{mix, Rng};
use crate::verif::runner::{erase, Codec, Outcome, Property, Scenario, Tier, Violation};
use crate::verif::sout::{
    self, ConfSel, Dest, Op, Oracle, SoutCase, Step, TimeBase, Who, World, TL,
};
use std::collections::BTreeMap;

pub struct UnsolScenario;

pub fn property<C: Codec>() -> Property {
    Property {
        id: "C14",
        scenarios: vec![erase::<C, _>(UnsolScenario)],
    }
}

impl Scenario for UnsolScenario {
    type Case = SoutCase;

    fn name(&self) -> &'static str {
        "unsolicited"
    }

    fn runs(&self, tier: Tier) -> u64 {
        match tier {
            Tier::Quick => 90_000,
            Tier::Thorough => 2_400_000,
        }
    }

    fn rule(&self) -> String {
        "histories of 5..35 operations against an outstation with unsolicited support: updates (also at database lock points), ENABLE/DISABLE_UNSOLICITED \
         for class subsets (unicast and broadcast), unsolicited confirms right / wrong sequence / solicited-instead / missing, requests of every kind during \
         the confirm wait (READs are deferred), waits to confirm_timeout and retry_delay -1/+1 ms and random waits, retry limits None/0/1/3, retry delays \
         0/1000/5000 ms, reconnects; temporal monitor R1..R8 over the wire with virtual timestamps; non-trivial = a data series timed out or was cancelled, \
         or a READ was deferred; distinct = hash of the sequence of (operation kind, monitor state transitions)"
            .to_string()
    }

    fn real_components(&self) -> Vec<&'static str> {
        vec![
            "outstation::session::OutstationSession (unsolicited state machine, deferred read, retry/deadline logic)",
            "outstation::database (wait_for_change notification, event selection)",
            "outstation::deferred",
            "outstation::task::OutstationTask",
            "tcp::outstation::server_task::ServerTask",
            "transport::real",
            "link::layer/reader/parser",
            "tokio timers / select!",
        ]
    }

    fn stub_components(&self) -> Vec<&'static str> {
        vec![
            "physical layer (SimSocket)",
            "TCP accept loop",
            "user callbacks (recording stubs)",
            "scripted master peer (reference codec)",
            "user threads (sim actor + lock-point injection)",
        ]
    }

    fn generate(&self, rng: &mut Rng, _tier: Tier) -> SoutCase {
        let mut cfg = gen_event_cfg(rng);
        cfg.unsolicited = true;
        cfg.event_buffers = [*rng.pick(&[5u16, 20]); 8];
        let ntypes = rng.urange(1, 3);
        cfg.points = gen_points(rng, ntypes, 2, false, false);
        let mut clock = 5_000_000u64;
        let mut script = Vec::new();
        if rng.chance(5, 6) {
            script.push(Op::Confirm {
                uns: true,
                seq: ConfSel::Expected,
                from: Who::Master,
            });
        }
        if rng.chance(4, 5) {
            script.push(unsol_op(rng, true));
        }
        let len = rng.urange(5, 35);
        for _ in 0..len {
            match rng.below(100) {
                0..=24 => {
                    let u = gen_update(rng, &cfg.points, &mut clock);
                    if rng.chance(1, 3) {
                        script.push(Op::UpdateAtLock {
                            site: rng.pick(&LOCK_SITES).to_string(),
                            skip: rng.below(3) as u8,
                            update: u,
                        });
                    } else {
                        script.push(Op::Update(u));
                    }
                }
                25..=39 => script.push(Op::Confirm {
                    uns: true,
                    seq: if rng.chance(3, 4) {
                        ConfSel::Expected
                    } else {
                        ConfSel::Offset(rng.range(1, 15) as u8)
                    },
                    from: Who::Master,
                }),
                40..=44 => script.push(Op::Confirm {
                    uns: false,
                    seq: ConfSel::Expected,
                    from: Who::Master,
                }),
                45..=59 => script.push(Op::SleepRel {
                    base: if rng.chance(2, 3) {
                        TimeBase::ConfirmTimeout
                    } else {
                        TimeBase::RetryDelay
                    },
                    delta_ms: *rng.pick(&[-1i64, 1, 1]),
                    since_last_tx: rng.chance(2, 3),
                }),
                60..=64 => script.push(Op::Sleep(rng.range(1, 12_000))),
                65..=74 => {
                    let enable = rng.bool();
                    let mut op = unsol_op(rng, enable);
                    if rng.chance(1, 6) {
                        if let Op::Request { to, .. } = &mut op {
                            *to = Dest::Bcast(*rng.pick(&[0xFFFFu16, 0xFFFE, 0xFFFD]));
                        }
                    }
                    script.push(op);
                }
                75..=84 => {
                    // (now and then a READ that names nothing: it is a READ all the same, deferred and answered like any other)
                    let headers = if rng.chance(1, 10) { Vec::new() } else { gen_event_read(rng, &cfg.points) };
                    script.push(read_op(headers));
                }
                85..=92 => script.push(gen_executed_request(rng, &cfg.points, Dest::Own)),
                93..=94 => script.push(Op::Repeat),
                95..=96 => {
                    if rng.bool() {
                        script.push(Op::Disconnect { eof: rng.bool() });
                    }
                    script.push(Op::Connect);
                }
                _ => {
                    if rng.bool() {
                        script.push(Op::LinkStatusRequest)
                    } else {
                        script.push(Op::SetDecodeLevel(rng.chance(1, 4)))
                    }
                }
            }
        }
        crate::verif::props::gen_out::sprinkle_splits(rng, &mut script);
        SoutCase {
            cfg,
            ctrl: CtrlAnswers::AllSuccess,
            chunk: rng.below(5) as u8,
            chunk_seed: rng.next_u64(),
            script,
        }
    }

    fn shrink(&self, case: &SoutCase) -> Vec<SoutCase> {
        sout::shrink_case(case)
    }

    fn execute(&self, case: &SoutCase, log: bool) -> Outcome {
        sout::execute("C14", case, case.chunk_seed, log, |c| UnsolOracle::new(c))
    }
}

#[derive(Clone, Debug)]
struct Series {
    seq: u8,
    bytes: Vec<u8>,
    last_tx: u64,
    tx_count: u32,
    is_null: bool,
    ids: Vec<u64>,
}

enum Ev<'a> {
    Tl(&'a TL),
    Cb(u64, &'a Cb),
    Frag(&'a crate::verif::nodes::peer::RxFragment),
    Sent,
}

pub struct UnsolOracle {
    ledger: Ledger,
    master: u16,
    own: u16,
    broadcast_enabled: bool,
    confirm_timeout: u64,
    retry_delay: u64,
    max_retries: Option<usize>,
    null_done: bool,
    enabled: [bool; 3],
    outstanding: Option<Series>,
    /// earliest time at which the next data series may start (failure/cancel time + retry delay)
    not_before: Option<u64>,
    /// a READ deferred during the wait: (seq, arrival time)
    deferred: Option<(u8, u64)>,
    /// when the series that deferred the READ ended
    deferred_due: Option<u64>,
    /// ENABLE/DISABLE_UNSOLICITED sent but not yet processed: (function, classes, seq, unicast)
    pending_cfg: Option<(u8, [bool; 3], u8, bool)>,
    /// READ sent and not yet answered: (seq, time)
    read_in_flight: Option<(u8, u64)>,
    /// what the READ last sent asks for: (sequence number, static data wanted, event classes / types wanted)
    last_read_wants: Option<(u8, bool, bool)>,
    /// the request processed last on this connection (a byte-identical Repeat is a retransmission, not executed)
    last_request: Option<Vec<u8>>,
    sol_wait: bool,
    connected: bool,
    desync: bool,
    nontrivial: bool,
    fp: u64,
    counters: BTreeMap<String, u64>,
}

impl UnsolOracle {
    pub fn new(case: &SoutCase) -> Self {
        Self {
            ledger: Ledger::new(&case.cfg),
            master: case.cfg.master_addr,
            own: case.cfg.outstation_addr,
            broadcast_enabled: case.cfg.broadcast,
            confirm_timeout: case.cfg.confirm_timeout_ms,
            retry_delay: case.cfg.unsol_retry_delay_ms,
            max_retries: case.cfg.max_unsol_retries,
            null_done: false,
            enabled: [false; 3],
            outstanding: None,
            not_before: None,
            deferred: None,
            deferred_due: None,
            pending_cfg: None,
            read_in_flight: None,
            last_read_wants: None,
            last_request: None,
            sol_wait: false,
            connected: true,
            desync: false,
            nontrivial: false,
            fp: 0,
            counters: BTreeMap::new(),
        }
    }

    fn bump(&mut self, k: &str) {
        *self.counters.entry(k.to_string()).or_insert(0) += 1;
    }

    /// classes named by the object headers of an ENABLE/DISABLE request (None = contains something else)
    fn classes_of(bytes: &[u8]) -> Option<[bool; 3]> {
        let (headers, _) = refapp::decode_objects(&bytes[2..], true).ok()?;
        let mut c = [false; 3];
        for h in headers {
            if h.group == 60 && (2..=4).contains(&h.var) && h.qualifier == 0x06 {
                c[h.var as usize - 2] = true;
            } else {
                return None;
            }
        }
        Some(c)
    }
}

impl Oracle for UnsolOracle {
    fn step(&mut self, _world: &World, step: &Step) -> Option<Violation> {
        if self.desync {
            return None;
        }
        if step.connected || step.disconnected {
            // the series in progress ends with the connection; a new one may start at once on the next connection
            if let Some(s) = &self.outstanding {
                if !s.is_null {
                    self.nontrivial = true;
                }
            }
            self.outstanding = None;
            // a retry delay that is running keeps running across connections
            self.deferred = None;
            self.deferred_due = None;
            self.pending_cfg = None;
            self.read_in_flight = None;
            self.last_request = None;
            self.sol_wait = false;
            self.connected = step.connected || (self.connected && !step.disconnected);
            if step.disconnected && !step.connected {
                self.connected = false;
            }
        }
        if step.connected {
            self.connected = true;
        }

        let sent = if step.link_up {
            step.sent.clone()
        } else {
            None
        };
        let mut evs: Vec<(u64, Ev)> = Vec::new();
        for tl in &step.timeline {
            let o = match tl {
                TL::Lock(_, o) => *o,
                TL::Update { order, .. } => *order,
            };
            evs.push((o, Ev::Tl(tl)));
        }
        for (i, (t, cb)) in step.callbacks.iter().enumerate() {
            evs.push((
                step.callback_orders.get(i).copied().unwrap_or(0),
                Ev::Cb(*t, cb),
            ));
        }
        for rx in &step.received {
            evs.push((rx.order, Ev::Frag(rx)));
        }
        if sent.is_some() {
            evs.push((step.sent_order, Ev::Sent));
        }
        evs.sort_by_key(|e| e.0);

        let mut discarded_now: Vec<u64> = Vec::new();
        let mut kind_trace = 0u64;
        let mut confirm_sent: Option<u8> = None;
        let mut owed_response: Option<u8> = None;

        for (_, ev) in &evs {
            match ev {
                Ev::Tl(TL::Update { op, info, t_ms, .. }) => {
                    if self.ledger.apply_update(op, *info, *t_ms).is_err() {
                        self.desync = true;
                        return None;
                    }
                    if let UpdateInfo::Overflow { discarded, .. } = info {
                        discarded_now.push(*discarded);
                    }
                }
                Ev::Tl(_) => {}
                Ev::Cb(t, cb) => match cb {
                    Cb::EventCleared(id) => {
                        if let Some(e) = self.ledger.events.get_mut(id) {
                            e.state = EvState::Released;
                        }
                    }
                    Cb::Info(s) => {
                        if s.starts_with("enter_solicited_confirm_wait") {
                            self.sol_wait = true;
                        } else if s.starts_with("solicited_confirm_timeout")
                            || s.starts_with("solicited_confirm_wait_new_request")
                        {
                            self.sol_wait = false;
                        } else if s.starts_with("solicited_confirm_received") {
                            // the wait continues only if another fragment follows (enter is not called again); decided below
                            self.sol_wait = false;
                        }
                        if s.starts_with("broadcast_received") && s.contains("Processed") {
                            if let Some((func, cl, _, false)) = self.pending_cfg {
                                self.pending_cfg = None;
                                for i in 0..3 {
                                    if cl[i] {
                                        self.enabled[i] = func == refapp::FUNC_ENABLE_UNSOL;
                                    }
                                }
                                // "DISABLE_UNSOLICITED stops it" - also when it comes by broadcast: the series in flight is over,
                                // exactly as for the unicast request; the next one waits for the retry delay
                                if func == refapp::FUNC_DISABLE_UNSOL {
                                    if let Some(series) = &self.outstanding {
                                        if !series.is_null {
                                            self.nontrivial = true;
                                            self.bump("probe.series_cancelled_by_broadcast");
                                            self.not_before = Some(*t + self.retry_delay);
                                        }
                                        self.outstanding = None;
                                    }
                                }
                            }
                        }
                        if s.starts_with("unsolicited_confirmed") {
                            let q = s
                                .split_whitespace()
                                .nth(1)
                                .and_then(|x| x.parse::<u8>().ok());
                            if let (Some(series), Some(q)) = (self.outstanding.clone(), q) {
                                if series.seq == q {
                                    if confirm_sent != Some(q) {
                                        return Some(Violation::new(
                                            "C14/R3 series-confirmed-without-matching-confirm",
                                            "",
                                            format!("step {}: the session treats unsolicited seq {} as confirmed but no unsolicited CONFIRM with that sequence number was sent (sent: {:?})", step.op_index, q, confirm_sent),
                                        ));
                                    }
                                    if *t > series.last_tx + self.confirm_timeout {
                                        return Some(Violation::new(
                                            "C14/R4 confirm-accepted-after-timeout",
                                            "",
                                            format!("step {}: CONFIRM accepted at {} ms, transmission at {} ms, confirm timeout {} ms", step.op_index, t, series.last_tx, self.confirm_timeout),
                                        ));
                                    }
                                    if series.is_null {
                                        self.null_done = true;
                                    }
                                    self.outstanding = None;
                                    self.not_before = None;
                                    if self.deferred.is_some() {
                                        self.deferred_due = Some(*t);
                                    }
                                    self.bump("probe.series_confirmed");
                                    kind_trace = mix(&[kind_trace, 1]);
                                }
                            }
                        }
                        if s.starts_with("unsolicited_confirm_timeout") {
                            // the session's own announcement that the confirm timer of the series fired
                            let mut it = s.split_whitespace();
                            let q = it.nth(1).and_then(|x| x.parse::<u8>().ok());
                            let retry = s.ends_with("true");
                            if let (Some(series), Some(q)) = (self.outstanding.clone(), q) {
                                if series.seq == q {
                                    let deadline = series.last_tx + self.confirm_timeout;
                                    if *t < deadline {
                                        return Some(Violation::new(
                                            "C14/R4 confirm-timeout-too-early",
                                            "",
                                            format!("step {}: confirm timeout announced at {} ms, transmission at {} ms, timeout {} ms", step.op_index, t, series.last_tx, self.confirm_timeout),
                                        ));
                                    }
                                    if !retry {
                                        // "retried unchanged up to the configured number of times": giving up earlier, with
                                        // nothing but the time-out as the reason, is not what was configured
                                        let retries_left = self
                                            .max_retries
                                            .map(|m| (series.tx_count as usize) < 1 + m)
                                            .unwrap_or(true);
                                        // (a READ deferred during the wait is the other reason: it is answered when this wait ends)
                                        if !series.is_null && retries_left && self.deferred.is_none() {
                                            return Some(Violation::new(
                                                "C14/R4 series-abandoned-before-configured-retries",
                                                "",
                                                format!(
                                                    "step {}: the unsolicited response seq {} was given up after {} transmission(s) although {:?} retries are configured",
                                                    step.op_index, q, series.tx_count, self.max_retries
                                                ),
                                            ));
                                        }
                                        if !series.is_null {
                                            self.nontrivial = true;
                                            self.bump("probe.series_timed_out");
                                            self.not_before = Some(*t + self.retry_delay);
                                        }
                                        if self.deferred.is_some() && self.deferred_due.is_none() {
                                            self.deferred_due = Some(*t);
                                        }
                                        self.outstanding = None;
                                    }
                                }
                            }
                        }
                    }
                    _ => {}
                },
                Ev::Sent => {
                    let s = sent.as_ref().unwrap();
                    let t = s.t_ms;
                    let from_master = s.src == self.master;
                    let unicast = s.dest == self.own;
                    let bcast = s.dest >= 0xFFFD;
                    if s.bytes.len() < 2 || !from_master || !(unicast || bcast) {
                        continue;
                    }
                    let func = s.bytes[1];
                    let plain = s.bytes[0] & 0xF0 == 0xC0;
                    if func == refapp::FUNC_CONFIRM {
                        // only the flags FIR|FIN matter for a confirm; UNS selects the kind. The series ends when the session
                        // announces the confirmation (below), which is only legitimate if such a CONFIRM was sent
                        if s.bytes[0] & 0xE0 == 0xC0
                            && s.bytes[0] & 0x10 != 0
                            && s.bytes.len() == 2
                            && unicast
                        {
                            confirm_sent = Some(s.bytes[0] & 0x0F);
                        }
                        continue;
                    }
                    let retransmission = matches!(step.op, Op::Repeat)
                        && self.last_request.as_ref() == Some(&s.bytes)
                        && func != refapp::FUNC_READ;
                    self.last_request = Some(s.bytes.clone());
                    if retransmission {
                        // answered from memory, not executed again (C05); it still supersedes a deferred READ
                        if self.outstanding.is_some() {
                            self.deferred = None;
                            self.deferred_due = None;
                        }
                        continue;
                    }
                    if !plain {
                        // unusual header flags: rejected by validation, but it clears a deferred READ
                        if self.outstanding.is_some() && unicast {
                            self.deferred = None;
                            self.deferred_due = None;
                        }
                        continue;
                    }
                    let in_wait = self.outstanding.is_some();
                    // "other requests are answered immediately": a non-READ request that has a response, arriving while an
                    // unsolicited confirmation is pending, is owed its response in this very step
                    if in_wait
                        && unicast
                        && !matches!(step.op, Op::Repeat)
                        && matches!(func, 2 | 3 | 4 | 5 | 7 | 9 | 11 | 13 | 14 | 20 | 21 | 23 | 24)
                    {
                        owed_response = Some(s.bytes[0] & 0x0F);
                    }
                    match func {
                        refapp::FUNC_READ if unicast => {
                            self.read_in_flight = Some((s.bytes[0] & 0x0F, t));
                            self.last_read_wants = match refapp::decode_objects(&s.bytes[2..], false) {
                                Ok((headers, _)) => {
                                    let is_event_header = |h: &refapp::HeaderInfo| {
                                        (h.group == 60 && (2..=4).contains(&h.var))
                                            || refapp::count_only_event_group(h.group)
                                    };
                                    Some((
                                        s.bytes[0] & 0x0F,
                                        headers.iter().any(|h| !is_event_header(h)),
                                        headers.iter().any(|h| is_event_header(h)),
                                    ))
                                }
                                Err(_) => None,
                            };
                            if in_wait {
                                self.deferred = Some((s.bytes[0] & 0x0F, t));
                                self.deferred_due = None;
                                self.nontrivial = true;
                                self.bump("probe.read_deferred");
                                kind_trace = mix(&[kind_trace, 2]);
                            }
                        }
                        refapp::FUNC_ENABLE_UNSOL | refapp::FUNC_DISABLE_UNSOL => {
                            if in_wait {
                                // a later request (unicast or broadcast) supersedes a deferred READ
                                self.deferred = None;
                                self.deferred_due = None;
                            }
                            self.read_in_flight = None;
                            if unicast || self.broadcast_enabled {
                                match Self::classes_of(&s.bytes) {
                                    // takes effect when the request is processed (its response / the broadcast callback)
                                    Some(cl) => {
                                        self.pending_cfg =
                                            Some((func, cl, s.bytes[0] & 0x0F, unicast))
                                    }
                                    None => {
                                        // other object headers: which classes changed is not modelled
                                        self.desync = true;
                                        return None;
                                    }
                                }
                            }
                        }
                        _ => {
                            self.read_in_flight = None;
                            if in_wait {
                                // any other request supersedes a deferred READ
                                self.deferred = None;
                                self.deferred_due = None;
                            }
                        }
                    }
                }
                Ev::Frag(rx) => {
                    let frag = match &rx.frag {
                        Some(f) => f,
                        None => continue,
                    };
                    let t = rx.t_ms;
                    if frag.func == refapp::FUNC_RESPONSE {
                        if frag.ctrl.con {
                            self.sol_wait = true;
                        }
                        if let Some((seq, _)) = self.read_in_flight {
                            if frag.ctrl.fir && frag.ctrl.seq == seq {
                                self.read_in_flight = None;
                            }
                        }
                        if let Some((func, cl, seq, true)) = self.pending_cfg {
                            if frag.ctrl.fir && frag.ctrl.seq == seq {
                                self.pending_cfg = None;
                                for i in 0..3 {
                                    if cl[i] {
                                        self.enabled[i] = func == refapp::FUNC_ENABLE_UNSOL;
                                    }
                                }
                                if func == refapp::FUNC_DISABLE_UNSOL {
                                    // cancels the series in progress; the next one waits for the retry delay
                                    if let Some(series) = &self.outstanding {
                                        if !series.is_null {
                                            self.nontrivial = true;
                                            self.bump("probe.series_cancelled");
                                            self.not_before = Some(t + self.retry_delay);
                                        }
                                        self.outstanding = None;
                                        kind_trace = mix(&[kind_trace, 3]);
                                    }
                                }
                            }
                        }
                        // R7b: the answer to a READ - deferred or not - carries what that READ asked for, not what an earlier,
                        // superseded READ asked for
                        if let Some((seq, wants_static, wants_events)) = self.last_read_wants {
                            if frag.ctrl.fir && frag.ctrl.seq == seq {
                                self.last_read_wants = None;
                                let meas = refapp::measurements(frag);
                                let has_static = meas.iter().any(|m| !m.is_event);
                                let has_events = meas.iter().any(|m| m.is_event);
                                if (has_static && !wants_static) || (has_events && !wants_events) {
                                    return Some(Violation::new(
                                        "C14/R7 read-answer-carries-what-was-not-asked-for",
                                        if has_static && !wants_static { "static-objects" } else { "events" },
                                        format!(
                                            "step {}: the response to READ seq {} (static wanted: {}, events wanted: {}) carries static objects: {}, events: {}",
                                            step.op_index, seq, wants_static, wants_events, has_static, has_events
                                        ),
                                    ));
                                }
                            }
                        }
                        // R7: the answer to a deferred READ
                        if let Some((seq, _)) = self.deferred {
                            if frag.ctrl.fir && frag.ctrl.seq == seq {
                                if self.outstanding.is_some() {
                                    return Some(Violation::new(
                                        "C14/R7 deferred-read-answered-before-series-ended",
                                        "",
                                        format!("step {}: READ seq {} received during the unsolicited confirm wait was answered at {} ms while the series is still outstanding", step.op_index, seq, t),
                                    ));
                                }
                                self.deferred = None;
                                self.deferred_due = None;
                                self.bump("probe.deferred_read_answered");
                            }
                        }
                        continue;
                    }
                    if frag.func != refapp::FUNC_UNSOL_RESPONSE {
                        continue;
                    }
                    // implicit end of the previous series by timeout
                    if let Some(series) = self.outstanding.clone() {
                        if rx.bytes == series.bytes {
                            // R2 for retries: "DISABLE_UNSOLICITED stops it" - however the request came (unicast cancels the
                            // series, a broadcast is processed silently): events of a class that has been disabled since the
                            // series began are not sent unsolicited again
                            for id in &series.ids {
                                let class = self.ledger.events.get(id).map(|e| e.class).unwrap_or(0);
                                if (1..=3).contains(&class) && !self.enabled[class as usize - 1] {
                                    return Some(Violation::new(
                                        "C14/R2 event-of-class-not-enabled",
                                        "retry-after-disable",
                                        format!(
                                            "step {}: unsolicited seq {} is re-sent at {} ms with event {} of class {}, which has been disabled since the series began",
                                            step.op_index, series.seq, t, id, class
                                        ),
                                    ));
                                }
                            }
                            // R4: a retry
                            if series.is_null {
                                return Some(Violation::new(
                                    "C14/R1 null-response-not-fresh",
                                    "",
                                    format!("step {}: an empty start-up unsolicited response was re-sent with the same sequence number {}", step.op_index, series.seq),
                                ));
                            }
                            if t < series.last_tx + self.confirm_timeout {
                                return Some(Violation::new(
                                    "C14/R4 retry-too-early",
                                    "",
                                    format!("step {}: retry at {} ms, previous transmission at {} ms, confirm timeout {} ms", step.op_index, t, series.last_tx, self.confirm_timeout),
                                ));
                            }
                            if let Some(max) = self.max_retries {
                                if series.tx_count as usize >= 1 + max {
                                    return Some(Violation::new(
                                        "C14/R4 too-many-retries",
                                        format!("max={}", max),
                                        format!("step {}: transmission number {} of the same unsolicited response, {} retries configured", step.op_index, series.tx_count + 1, max),
                                    ));
                                }
                            }
                            if self.deferred.is_some() {
                                // (this library leaves the series at the next timeout when a READ is waiting; retrying on and
                                // answering the READ when the series does end is just as much "answered once the series ends")
                                self.bump("probe.retry_while_read_deferred");
                            }
                            let s = self.outstanding.as_mut().unwrap();
                            s.last_tx = t;
                            s.tx_count += 1;
                            self.bump("probe.retry");
                            kind_trace = mix(&[kind_trace, 4]);
                            continue;
                        }
                        // a different fragment: the previous series must be over
                        let deadline = series.last_tx + self.confirm_timeout;
                        if t < deadline {
                            return Some(Violation::new(
                                "C14/R3 second-series-while-one-outstanding",
                                if series.seq == frag.ctrl.seq { "same-sequence-different-content" } else { "new-sequence" },
                                format!(
                                    "step {}: unsolicited seq {} transmitted at {} ms while seq {} (sent {} ms) still awaits confirmation until {} ms",
                                    step.op_index, frag.ctrl.seq, t, series.seq, series.last_tx, deadline
                                ),
                            ));
                        }
                        // timed out
                        if !series.is_null {
                            self.nontrivial = true;
                            self.bump("probe.series_timed_out");
                            self.not_before = Some(deadline + self.retry_delay);
                        }
                        if self.deferred.is_some() && self.deferred_due.is_none() {
                            self.deferred_due = Some(deadline);
                        }
                        self.outstanding = None;
                    }
                    // a new series
                    let meas = refapp::measurements(frag);
                    let events: Vec<&refapp::Meas> = meas.iter().filter(|m| m.is_event).collect();
                    let is_null = frag.objects.is_empty() && frag.headers.is_empty();
                    if !self.null_done && !is_null {
                        return Some(Violation::new(
                            "C14/R1 data-before-null-confirmed",
                            "",
                            format!("step {}: unsolicited response with {} objects before any start-up (empty) unsolicited response was confirmed", step.op_index, frag.objects.len()),
                        ));
                    }
                    let ids = match match_events(&self.ledger, &events, &discarded_now) {
                        Ok(ids) => ids,
                        Err(_) => {
                            self.desync = true; // C03 reports this
                            return None;
                        }
                    };
                    if !is_null {
                        // R2 / R6: only classes that are enabled
                        for id in &ids {
                            let class = self.ledger.events[id].class;
                            if !(1..=3).contains(&class) || !self.enabled[class as usize - 1] {
                                return Some(Violation::new(
                                    "C14/R2 event-of-class-not-enabled",
                                    format!("class={}", class),
                                    format!("step {}: unsolicited response carries event {} of class {} but enabled classes are {:?}", step.op_index, id, class, self.enabled),
                                ));
                            }
                        }
                        // R5: not before the retry delay after a failed / cancelled series
                        if let Some(nb) = self.not_before {
                            if t < nb {
                                return Some(Violation::new(
                                    "C14/R5 series-before-retry-delay",
                                    "",
                                    format!("step {}: new unsolicited series at {} ms, the previous one failed/was cancelled and the retry delay ends at {} ms", step.op_index, t, nb),
                                ));
                            }
                        }
                        self.not_before = None;
                        self.bump("probe.data_series_started");
                    } else {
                        self.bump("probe.null_series_started");
                    }
                    if let (Some((seq, t0)), None) = (self.read_in_flight, self.deferred) {
                        // the READ was still unread when this series started: it is deferred
                        self.deferred = Some((seq, t0));
                        self.deferred_due = None;
                        self.nontrivial = true;
                        self.bump("probe.read_deferred");
                    }
                    self.outstanding = Some(Series {
                        seq: frag.ctrl.seq,
                        bytes: rx.bytes.clone(),
                        last_tx: t,
                        tx_count: 1,
                        is_null,
                        ids,
                    });
                    kind_trace = mix(&[kind_trace, 5 + is_null as u64]);
                }
            }
        }

        let now = step.t_end;
        // a series whose last transmission timed out during this step without a successor
        if let Some(series) = self.outstanding.clone() {
            let deadline = series.last_tx + self.confirm_timeout;
            let may_retry = !series.is_null
                && self.deferred.is_none()
                && self
                    .max_retries
                    .map(|m| (series.tx_count as usize) < 1 + m)
                    .unwrap_or(true);
            if now > deadline {
                if may_retry || series.is_null {
                    // R8-like liveness: a retry (or a fresh start-up response) was due at `deadline`
                    return Some(Violation::new(
                        if series.is_null { "C14/R1 null-response-not-regenerated" } else { "C14/R4 retry-not-sent" },
                        "",
                        format!("step {}: nothing was transmitted after the confirm timeout at {} ms (now {} ms)", step.op_index, deadline, now),
                    ));
                }
                if !series.is_null {
                    self.nontrivial = true;
                    self.bump("probe.series_timed_out");
                    self.not_before = Some(deadline + self.retry_delay);
                }
                if self.deferred.is_some() && self.deferred_due.is_none() {
                    self.deferred_due = Some(deadline);
                }
                self.outstanding = None;
            } else if now == deadline {
                // on the edge: the timer may or may not have fired yet
            }
        }
        if let Some(seq) = owed_response {
            let answered = step.received.iter().any(|r| {
                r.frag
                    .as_ref()
                    .map(|f| f.func == refapp::FUNC_RESPONSE && f.ctrl.seq == seq)
                    .unwrap_or(false)
            });
            if !answered && step.link_up && !step.disconnected && !step.connected {
                return Some(Violation::new(
                    "C14/R7 request-during-wait-not-answered",
                    "",
                    format!(
                        "step {}: a non-READ request (seq {}) arrived while an unsolicited confirmation was pending and got no response",
                        step.op_index, seq
                    ),
                ));
            }
        }
        // R7 liveness: the deferred READ is answered once the series has ended
        if let (Some((seq, _)), Some(due)) = (self.deferred, self.deferred_due) {
            if now > due || (now == due && self.outstanding.is_none()) {
                return Some(Violation::new(
                    "C14/R7 deferred-read-dropped",
                    "",
                    format!("step {}: READ seq {} was deferred, the series ended at {} ms, but no response followed (now {} ms)", step.op_index, seq, due, now),
                ));
            }
        }
        // R8: with a class enabled, an event buffered, nothing outstanding and no retry delay pending, a series must have started
        if self.connected
            && self.null_done
            && self.outstanding.is_none()
            && !self.sol_wait
            && self.deferred.is_none()
        {
            let waiting = self.not_before.map(|nb| now < nb).unwrap_or(false);
            let edge = self.not_before.map(|nb| now == nb).unwrap_or(false);
            if !waiting && !edge {
                let pending: Vec<u64> = self
                    .ledger
                    .live()
                    .filter(|e| (1..=3).contains(&e.class) && self.enabled[e.class as usize - 1])
                    .map(|e| e.id)
                    .collect();
                if !pending.is_empty() && !matches!(step.op, Op::UpdateAtLock { .. }) {
                    return Some(Violation::new(
                        "C14/R8 unsolicited-not-sent",
                        "",
                        format!(
                            "step {}: events {:?} of enabled classes are buffered, no unsolicited response is outstanding, no retry delay is pending (not_before {:?}, now {} ms), yet nothing was transmitted",
                            step.op_index, pending, self.not_before, now
                        ),
                    ));
                }
            }
        }
        let kind = match &step.op {
            Op::Update(_) | Op::UpdateAtLock { .. } => 1,
            Op::Request { func, .. } => 10 + *func as u64,
            Op::Confirm { uns, .. } => 40 + *uns as u64,
            Op::Sleep(_) | Op::SleepRel { .. } => 51,
            Op::Connect | Op::Disconnect { .. } => 52,
            _ => 60,
        };
        self.fp = mix(&[
            self.fp,
            kind,
            kind_trace,
            self.outstanding.is_some() as u64,
            self.null_done as u64,
        ]);
        None
    }

    fn nontrivial(&self) -> bool {
        self.nontrivial
    }

    fn fingerprint(&self) -> u64 {
        self.fp
    }

    fn counters(&self) -> Vec<(String, u64)> {
        self.counters.iter().map(|(k, v)| (k.clone(), *v)).collect()
    }
}
