//! Batch runner shared by every property: seeded generation of cases, parallel execution (one
//! simulated world per worker thread), minimisation, replay files, known-findings handling,
//! evidence writing.

use super::rng::{mix, Rng};
use serde::{de::DeserializeOwned, Serialize};
use std::collections::{BTreeMap, BTreeSet};
use std::sync::atomic::{AtomicBool, AtomicU64, Ordering};
use std::sync::{Arc, Mutex};
use std::time::Instant;

/// JSON encoding is supplied by the thin binary crate (serde_json cannot be referenced from
/// inside the library crate: merely loading it makes `u32 == x.into()` in /repo ambiguous).
pub trait Codec: 'static {
    fn to_json<T: Serialize>(v: &T) -> String;
    fn from_json<T: DeserializeOwned>(s: &str) -> Result<T, String>;
}

/// tiny JSON document builder used for evidence and replay files
pub enum J {
    /// pre-serialised JSON text
    Raw(String),
    Str(String),
    Int(i128),
    Num(f64),
    Bool(bool),
    Arr(Vec<J>),
    Obj(Vec<(String, J)>),
}

impl J {
    pub fn s(x: impl Into<String>) -> J {
        J::Str(x.into())
    }
    pub fn u(x: u64) -> J {
        J::Int(x as i128)
    }
    pub fn obj(items: Vec<(&str, J)>) -> J {
        J::Obj(items.into_iter().map(|(k, v)| (k.to_string(), v)).collect())
    }
    pub fn map_u64<K: std::fmt::Display>(m: impl IntoIterator<Item = (K, u64)>) -> J {
        J::Obj(
            m.into_iter()
                .map(|(k, v)| (k.to_string(), J::u(v)))
                .collect(),
        )
    }
    pub fn write(&self, out: &mut String, indent: usize) {
        let pad = |out: &mut String, n: usize| {
            out.push('\n');
            for _ in 0..n {
                out.push(' ');
            }
        };
        match self {
            J::Raw(r) => out.push_str(r),
            J::Str(s) => {
                out.push('"');
                for ch in s.chars() {
                    match ch {
                        '"' => out.push_str("\\\""),
                        '\\' => out.push_str("\\\\"),
                        '\n' => out.push_str("\\n"),
                        '\r' => out.push_str("\\r"),
                        '\t' => out.push_str("\\t"),
                        c if (c as u32) < 0x20 => out.push_str(&format!("\\u{:04x}", c as u32)),
                        c => out.push(c),
                    }
                }
                out.push('"');
            }
            J::Int(i) => out.push_str(&i.to_string()),
            J::Num(f) => {
                if f.is_finite() {
                    out.push_str(&format!("{}", f))
                } else {
                    out.push_str("0")
                }
            }
            J::Bool(b) => out.push_str(if *b { "true" } else { "false" }),
            J::Arr(items) => {
                if items.is_empty() {
                    out.push_str("[]");
                    return;
                }
                out.push('[');
                for (i, it) in items.iter().enumerate() {
                    if i > 0 {
                        out.push(',');
                    }
                    pad(out, indent + 1);
                    it.write(out, indent + 1);
                }
                pad(out, indent);
                out.push(']');
            }
            J::Obj(items) => {
                if items.is_empty() {
                    out.push_str("{}");
                    return;
                }
                out.push('{');
                for (i, (k, v)) in items.iter().enumerate() {
                    if i > 0 {
                        out.push(',');
                    }
                    pad(out, indent + 1);
                    J::Str(k.clone()).write(out, 0);
                    out.push_str(": ");
                    v.write(out, indent + 1);
                }
                pad(out, indent);
                out.push('}');
            }
        }
    }
    pub fn render(&self) -> String {
        let mut s = String::new();
        self.write(&mut s, 0);
        s.push('\n');
        s
    }
}

#[derive(Clone, Copy, Debug, PartialEq, Eq)]
pub enum Tier {
    Quick,
    Thorough,
}

impl Tier {
    pub fn name(self) -> &'static str {
        match self {
            Tier::Quick => "quick",
            Tier::Thorough => "thorough",
        }
    }
}

#[derive(Clone, Debug, Serialize, serde::Deserialize, PartialEq)]
pub struct Violation {
    /// stable identifier of the rule that failed, e.g. "C06/i frame-sequence"
    pub rule: String,
    /// discriminating facts (call site, carrier kind, ...) - part of the signature
    pub key: String,
    /// human-readable detail (not part of the signature)
    pub detail: String,
}

impl Violation {
    pub fn new(rule: &str, key: impl Into<String>, detail: impl Into<String>) -> Self {
        Self {
            rule: rule.to_string(),
            key: key.into(),
            detail: detail.into(),
        }
    }
    pub fn signature(&self) -> String {
        if self.key.is_empty() {
            self.rule.clone()
        } else {
            format!("{} {}", self.rule, self.key)
        }
    }
}

#[derive(Default, Debug)]
pub struct Outcome {
    pub violation: Option<Violation>,
    pub harness_error: Option<String>,
    pub nontrivial: bool,
    pub fingerprint: u64,
    pub counters: BTreeMap<String, u64>,
    pub sim_ms: u64,
    pub steps: u64,
    pub trace_hash: u64,
    pub log: Vec<String>,
}

impl Outcome {
    pub fn count(&mut self, key: &str, n: u64) {
        *self.counters.entry(key.to_string()).or_insert(0) += n;
    }
}

/// One engine + workload + oracle for a property
pub trait Scenario: Sync {
    type Case: Clone + Serialize + DeserializeOwned + Send;

    /// short name, unique within the property (e.g. "link", "app")
    fn name(&self) -> &'static str;
    fn generate(&self, rng: &mut Rng, tier: Tier) -> Self::Case;
    fn execute(&self, case: &Self::Case, log: bool) -> Outcome;
    /// simpler variants of a failing case, most aggressive first
    fn shrink(&self, _case: &Self::Case) -> Vec<Self::Case> {
        Vec::new()
    }
    /// number of runs per tier
    fn runs(&self, tier: Tier) -> u64;
    fn rule(&self) -> String;
    fn real_components(&self) -> Vec<&'static str>;
    fn stub_components(&self) -> Vec<&'static str>;
    fn assumptions(&self) -> Vec<String> {
        Vec::new()
    }
}

/// Type-erased scenario so that a property can list several
pub trait DynScenario: Sync {
    fn name(&self) -> &'static str;
    fn runs(&self, tier: Tier) -> u64;
    fn rule(&self) -> String;
    fn real_components(&self) -> Vec<&'static str>;
    fn stub_components(&self) -> Vec<&'static str>;
    fn assumptions(&self) -> Vec<String>;
    fn gen_json(&self, seed: u64, run: u64, tier: Tier) -> String;
    fn run_generated(&self, seed: u64, run: u64, tier: Tier) -> Outcome;
    /// run the case stored in a replay document (full file text)
    fn run_replay_doc(&self, doc: &str, log: bool) -> Result<Outcome, String>;
    fn run_case_json(&self, case: &str, log: bool) -> Result<Outcome, String>;
    /// minimise a failing generated case; returns (minimised case json, final outcome with log, executions)
    fn minimise(&self, seed: u64, run: u64, tier: Tier, sig: &str) -> (String, Outcome, u64);
}

fn case_rng(seed: u64, scenario: &str, run: u64) -> Rng {
    let mut h = 0u64;
    for b in scenario.bytes() {
        h = h.wrapping_mul(131).wrapping_add(b as u64);
    }
    Rng::new(mix(&[seed, h, run]))
}

pub struct Erased<S, C> {
    inner: S,
    _c: std::marker::PhantomData<fn() -> C>,
}

pub fn erase<C: Codec, S: Scenario + 'static>(s: S) -> Box<dyn DynScenario> {
    Box::new(Erased::<S, C> {
        inner: s,
        _c: std::marker::PhantomData,
    })
}

#[derive(serde::Deserialize)]
struct ReplayCase<T> {
    case: T,
}

impl<S: Scenario, C: Codec> DynScenario for Erased<S, C> {
    fn name(&self) -> &'static str {
        Scenario::name(&self.inner)
    }
    fn runs(&self, tier: Tier) -> u64 {
        Scenario::runs(&self.inner, tier)
    }
    fn rule(&self) -> String {
        Scenario::rule(&self.inner)
    }
    fn real_components(&self) -> Vec<&'static str> {
        Scenario::real_components(&self.inner)
    }
    fn stub_components(&self) -> Vec<&'static str> {
        Scenario::stub_components(&self.inner)
    }
    fn assumptions(&self) -> Vec<String> {
        Scenario::assumptions(&self.inner)
    }
    fn gen_json(&self, seed: u64, run: u64, tier: Tier) -> String {
        let case = self
            .inner
            .generate(&mut case_rng(seed, Scenario::name(&self.inner), run), tier);
        C::to_json(&case)
    }
    fn run_generated(&self, seed: u64, run: u64, tier: Tier) -> Outcome {
        let case = self
            .inner
            .generate(&mut case_rng(seed, Scenario::name(&self.inner), run), tier);
        self.inner.execute(&case, false)
    }
    fn run_replay_doc(&self, doc: &str, log: bool) -> Result<Outcome, String> {
        let doc: ReplayCase<S::Case> = C::from_json(doc)?;
        Ok(self.inner.execute(&doc.case, log))
    }
    fn run_case_json(&self, case: &str, log: bool) -> Result<Outcome, String> {
        let case: S::Case = C::from_json(case)?;
        Ok(self.inner.execute(&case, log))
    }
    fn minimise(&self, seed: u64, run: u64, tier: Tier, sig: &str) -> (String, Outcome, u64) {
        let mut best = self
            .inner
            .generate(&mut case_rng(seed, Scenario::name(&self.inner), run), tier);
        let mut execs = 0u64;
        let budget = 600u64;
        let started = Instant::now();
        'outer: loop {
            let candidates = self.inner.shrink(&best);
            for cand in candidates {
                if execs >= budget || started.elapsed().as_secs() > 60 {
                    break 'outer;
                }
                execs += 1;
                let out = self.inner.execute(&cand, false);
                if let Some(v) = &out.violation {
                    if v.signature() == sig {
                        best = cand;
                        continue 'outer;
                    }
                }
            }
            break;
        }
        let out = self.inner.execute(&best, true);
        (C::to_json(&best), out, execs)
    }
}

/// helper for shrinkers: candidates obtained by deleting chunks of a vector (large chunks first)
pub fn shrink_vec<T: Clone>(v: &[T]) -> Vec<Vec<T>> {
    let mut out = Vec::new();
    let n = v.len();
    if n == 0 {
        return out;
    }
    let mut size = n;
    while size >= 1 {
        let mut start = 0;
        while start < n {
            let end = (start + size).min(n);
            if end - start < n || n == size {
                let mut c = Vec::with_capacity(n - (end - start));
                c.extend_from_slice(&v[..start]);
                c.extend_from_slice(&v[end..]);
                if c.len() < n {
                    out.push(c);
                }
            }
            start += size;
        }
        if size == 1 {
            break;
        }
        size /= 2;
        if out.len() > 200 {
            break;
        }
    }
    out
}

pub struct Property {
    pub id: &'static str,
    pub scenarios: Vec<Box<dyn DynScenario>>,
}

#[derive(serde::Deserialize, Clone, Debug)]
pub struct KnownFinding {
    pub property: String,
    pub signature: String,
    pub status: String,
    #[serde(default)]
    pub commit: Option<String>,
    #[serde(default)]
    pub description: String,
}

pub fn load_known_findings<C: Codec>() -> Vec<KnownFinding> {
    let path = format!("{}/known_findings.json", verif_root());
    match std::fs::read_to_string(&path) {
        Ok(s) => C::from_json(&s).unwrap_or_else(|e| {
            eprintln!("harness error: cannot parse {}: {}", path, e);
            std::process::exit(2);
        }),
        Err(_) => Vec::new(),
    }
}

pub fn verif_root() -> String {
    std::env::var("VERIF_ROOT").unwrap_or_else(|_| "/verif".to_string())
}

struct FoundViolation {
    scenario: usize,
    run: u64,
    violation: Violation,
}

#[derive(Default)]
struct Agg {
    evaluations: u64,
    nontrivial: u64,
    fingerprints: BTreeSet<u64>,
    counters: BTreeMap<String, u64>,
    sim_ms: u64,
    steps: u64,
}

struct WorkerSlot {
    // (scenario index, run, start instant) of the run in progress
    current: Mutex<Option<(usize, u64, Instant)>>,
}

pub fn run_check<C: Codec>(prop: &Property, tier: Tier, seed: u64) -> i32 {
    let t0 = Instant::now();
    let workers: usize = std::env::var("VERIF_WORKERS")
        .ok()
        .and_then(|s| s.parse().ok())
        .unwrap_or_else(|| {
            std::thread::available_parallelism()
                .map(|n| n.get())
                .unwrap_or(8)
                .min(16)
        });
    let wall_cap_s: u64 = std::env::var("VERIF_WALL_CAP_S")
        .ok()
        .and_then(|s| s.parse().ok())
        .unwrap_or(match tier {
            Tier::Quick => 150,
            Tier::Thorough => 1500,
        });
    let hang_s: u64 = std::env::var("VERIF_HANG_S")
        .ok()
        .and_then(|s| s.parse().ok())
        .unwrap_or(90);
    let known: Vec<KnownFinding> = load_known_findings::<C>()
        .into_iter()
        .filter(|k| k.property == prop.id && k.status == "known")
        .collect();

    let mut aggs: Vec<Agg> = Vec::new();
    let mut found: Vec<FoundViolation> = Vec::new();
    let mut known_hits: BTreeMap<String, (u64, usize, u64)> = BTreeMap::new();
    let mut harness_errors: Vec<String> = Vec::new();
    let mut capped = false;

    for (si, sc) in prop.scenarios.iter().enumerate() {
        let total = sc.runs(tier);
        let next = AtomicU64::new(0);
        let stop = AtomicBool::new(false);
        let agg = Mutex::new(Agg::default());
        let found_m: Mutex<Vec<FoundViolation>> = Mutex::new(Vec::new());
        let known_m: Mutex<BTreeMap<String, (u64, usize, u64)>> = Mutex::new(BTreeMap::new());
        let herr_m: Mutex<Vec<String>> = Mutex::new(Vec::new());
        let slots: Vec<Arc<WorkerSlot>> = (0..workers)
            .map(|_| {
                Arc::new(WorkerSlot {
                    current: Mutex::new(None),
                })
            })
            .collect();
        let done = AtomicBool::new(false);
        let capped_flag = AtomicBool::new(false);

        std::thread::scope(|scope| {
            // watchdog
            {
                let slots = slots.clone();
                let done = &done;
                let sc = sc.as_ref();
                let prop_id = prop.id;
                scope.spawn(move || {
                    while !done.load(Ordering::SeqCst) {
                        std::thread::sleep(std::time::Duration::from_millis(250));
                        for s in &slots {
                            let cur = *s.current.lock().unwrap();
                            if let Some((_, run, started)) = cur {
                                if started.elapsed().as_secs() >= hang_s {
                                    // a run that does not come back: report it as a hang with its replay
                                    let case = sc.gen_json(seed, run, tier);
                                    let v = Violation::new(
                                        &format!("{}/hang", prop_id),
                                        "",
                                        format!(
                                            "run did not finish within {} s of wall time",
                                            hang_s
                                        ),
                                    );
                                    let path = write_replay(
                                        prop_id,
                                        sc.name(),
                                        seed,
                                        run,
                                        tier,
                                        &case,
                                        &v,
                                        &[],
                                        0,
                                    );
                                    println!("VIOLATION property={} replay={}", prop_id, path);
                                    println!("  signature: {}", v.signature());
                                    std::process::exit(1);
                                }
                            }
                        }
                    }
                });
            }
            let mut handles = Vec::new();
            for w in 0..workers {
                let slot = slots[w].clone();
                let next = &next;
                let stop = &stop;
                let agg = &agg;
                let found_m = &found_m;
                let known_m = &known_m;
                let herr_m = &herr_m;
                let known = &known;
                let capped_flag = &capped_flag;
                let sc = sc.as_ref();
                handles.push(scope.spawn(move || {
                    let mut local = Agg::default();
                    loop {
                        if stop.load(Ordering::SeqCst) {
                            break;
                        }
                        if t0.elapsed().as_secs() >= wall_cap_s {
                            capped_flag.store(true, Ordering::SeqCst);
                            break;
                        }
                        let r = next.fetch_add(1, Ordering::SeqCst);
                        if r >= total {
                            break;
                        }
                        *slot.current.lock().unwrap() = Some((si, r, Instant::now()));
                        let out = sc.run_generated(seed, r, tier);
                        *slot.current.lock().unwrap() = None;
                        local.evaluations += 1;
                        local.sim_ms += out.sim_ms;
                        local.steps += out.steps;
                        if out.nontrivial {
                            local.nontrivial += 1;
                            local.fingerprints.insert(out.fingerprint);
                        }
                        for (k, v) in &out.counters {
                            *local.counters.entry(k.clone()).or_insert(0) += v;
                        }
                        if let Some(e) = out.harness_error {
                            herr_m.lock().unwrap().push(format!(
                                "scenario={} run={}: {}",
                                sc.name(),
                                r,
                                e
                            ));
                            stop.store(true, Ordering::SeqCst);
                            break;
                        }
                        if let Some(v) = out.violation {
                            let sig = v.signature();
                            if known.iter().any(|k| k.signature == sig) {
                                let mut km = known_m.lock().unwrap();
                                let e = km.entry(sig).or_insert((0, si, r));
                                e.0 += 1;
                                if r < e.2 {
                                    e.2 = r;
                                }
                            } else {
                                found_m.lock().unwrap().push(FoundViolation {
                                    scenario: si,
                                    run: r,
                                    violation: v,
                                });
                                stop.store(true, Ordering::SeqCst);
                                break;
                            }
                        }
                    }
                    let mut a = agg.lock().unwrap();
                    a.evaluations += local.evaluations;
                    a.nontrivial += local.nontrivial;
                    a.sim_ms += local.sim_ms;
                    a.steps += local.steps;
                    a.fingerprints.extend(local.fingerprints);
                    for (k, v) in local.counters {
                        *a.counters.entry(k).or_insert(0) += v;
                    }
                }));
            }
            for h in handles {
                let _ = h.join();
            }
            done.store(true, Ordering::SeqCst);
        });

        aggs.push(agg.into_inner().unwrap());
        found.extend(found_m.into_inner().unwrap());
        for (k, v) in known_m.into_inner().unwrap() {
            let e = known_hits.entry(k).or_insert((0, v.1, v.2));
            e.0 += v.0;
        }
        harness_errors.extend(herr_m.into_inner().unwrap());
        if capped_flag.load(Ordering::SeqCst) {
            capped = true;
        }
        if !found.is_empty() || !harness_errors.is_empty() {
            break;
        }
    }

    if !harness_errors.is_empty() {
        for e in &harness_errors {
            eprintln!("HARNESS-ERROR property={} {}", prop.id, e);
        }
        return 2;
    }

    // report
    let mut exit = 0;
    let mut violation_paths: Vec<String> = Vec::new();
    if !found.is_empty() {
        found.sort_by_key(|f| (f.scenario, f.run));
        let f = &found[0];
        let sc = &prop.scenarios[f.scenario];
        let sig = f.violation.signature();
        let (case, out, execs) = sc.minimise(seed, f.run, tier, &sig);
        // the minimised case must reproduce from its serialised form
        let replayed = sc.run_case_json(&case, false);
        let ok = match &replayed {
            Ok(o) => o.violation.as_ref().map(|v| v.signature()) == Some(sig.clone()),
            Err(_) => false,
        };
        if !ok {
            eprintln!(
                "HARNESS-ERROR property={} scenario={} run={}: violation '{}' did not reproduce from its minimised replay",
                prop.id,
                sc.name(),
                f.run,
                sig
            );
            return 2;
        }
        let v = out.violation.clone().unwrap_or_else(|| f.violation.clone());
        let path = write_replay(
            prop.id,
            sc.name(),
            seed,
            f.run,
            tier,
            &case,
            &v,
            &out.log,
            execs,
        );
        println!("VIOLATION property={} replay={}", prop.id, path);
        println!("  signature: {}", v.signature());
        println!("  detail: {}", v.detail);
        violation_paths.push(path);
        exit = 1;
    }
    for (sig, (n, _, _)) in &known_hits {
        println!(
            "KNOWN-FINDING: property={} {} (hit in {} runs)",
            prop.id, sig, n
        );
    }

    // evidence
    let wall = t0.elapsed().as_secs_f64();
    write_evidence(
        prop,
        tier,
        seed,
        &aggs,
        wall,
        exit,
        &known_hits,
        capped,
        workers,
    );
    let total_eval: u64 = aggs.iter().map(|a| a.evaluations).sum();
    let total_nt: usize = aggs.iter().map(|a| a.fingerprints.len()).sum();
    println!(
        "{} {} seed={} runs={} distinct_nontrivial={} wall={:.1}s{} -> {}",
        prop.id,
        tier.name(),
        seed,
        total_eval,
        total_nt,
        wall,
        if capped {
            " (wall-clock cap reached)"
        } else {
            ""
        },
        if exit == 0 { "OK" } else { "VIOLATION" }
    );
    exit
}

#[allow(clippy::too_many_arguments)]
fn write_replay(
    prop: &str,
    scenario: &str,
    seed: u64,
    run: u64,
    tier: Tier,
    case: &str,
    v: &Violation,
    log: &[String],
    shrink_execs: u64,
) -> String {
    let dir = format!("{}/replays", verif_root());
    let _ = std::fs::create_dir_all(&dir);
    let path = format!("{}/{}-{}-s{}-r{}.json", dir, prop, scenario, seed, run);
    let skip = log.len().saturating_sub(400);
    let tail: Vec<J> = log.iter().skip(skip).map(|l| J::s(l.clone())).collect();
    let doc = J::obj(vec![
        ("property", J::s(prop)),
        ("scenario", J::s(scenario)),
        ("seed", J::u(seed)),
        ("run", J::u(run)),
        ("tier", J::s(tier.name())),
        (
            "violation",
            J::obj(vec![
                ("rule", J::s(v.rule.clone())),
                ("key", J::s(v.key.clone())),
                ("detail", J::s(v.detail.clone())),
            ]),
        ),
        ("signature", J::s(v.signature())),
        ("minimise_executions", J::u(shrink_execs)),
        ("case", J::Raw(case.to_string())),
        ("log_tail", J::Arr(tail)),
    ]);
    std::fs::write(&path, doc.render()).expect("write replay");
    path
}

#[allow(clippy::too_many_arguments)]
fn write_evidence(
    prop: &Property,
    tier: Tier,
    seed: u64,
    aggs: &[Agg],
    wall: f64,
    exit: i32,
    known_hits: &BTreeMap<String, (u64, usize, u64)>,
    capped: bool,
    workers: usize,
) {
    let evaluations: u64 = aggs.iter().map(|a| a.evaluations).sum();
    let distinct: usize = aggs.iter().map(|a| a.fingerprints.len()).sum();
    let sim_ms: u64 = aggs.iter().map(|a| a.sim_ms).sum();
    let steps: u64 = aggs.iter().map(|a| a.steps).sum();
    let mut rule = String::new();
    let mut samples = Vec::new();
    let mut per_scenario = Vec::new();
    let mut real: BTreeSet<&'static str> = BTreeSet::new();
    let mut stub: BTreeSet<&'static str> = BTreeSet::new();
    let mut assumptions: Vec<String> = vec![
        "sampling, not enumeration: a clean batch is evidence, not proof".to_string(),
        "tokio's paused clock, timers, mpsc/oneshot/Notify and select! behave in simulation as in production".to_string(),
    ];
    let mut counters_total: BTreeMap<String, u64> = BTreeMap::new();
    for (i, sc) in prop.scenarios.iter().enumerate() {
        if !rule.is_empty() {
            rule.push_str(" || ");
        }
        rule.push_str(&format!("[{}] {}", sc.name(), sc.rule()));
        for r in 0..2u64 {
            samples.push(J::obj(vec![
                ("scenario", J::s(sc.name())),
                ("run", J::u(r)),
                ("case", J::Raw(sc.gen_json(seed, r, tier))),
            ]));
        }
        real.extend(sc.real_components());
        stub.extend(sc.stub_components());
        for a in sc.assumptions() {
            if !assumptions.contains(&a) {
                assumptions.push(a);
            }
        }
        if let Some(a) = aggs.get(i) {
            per_scenario.push(J::obj(vec![
                ("scenario", J::s(sc.name())),
                ("planned_runs", J::u(sc.runs(tier))),
                ("evaluations", J::u(a.evaluations)),
                ("nontrivial_runs", J::u(a.nontrivial)),
                ("distinct_nontrivial", J::u(a.fingerprints.len() as u64)),
                ("simulated_ms", J::u(a.sim_ms)),
                ("executor_steps", J::u(a.steps)),
                (
                    "counters",
                    J::map_u64(a.counters.iter().map(|(k, v)| (k.clone(), *v))),
                ),
            ]));
            for (k, v) in &a.counters {
                *counters_total.entry(k.clone()).or_insert(0) += v;
            }
        }
    }
    let faults = J::map_u64(
        counters_total
            .iter()
            .filter(|(k, _)| k.starts_with("fault."))
            .map(|(k, v)| (k.clone(), *v)),
    );
    let probes = J::map_u64(
        counters_total
            .iter()
            .filter(|(k, _)| k.starts_with("probe."))
            .map(|(k, v)| (k.clone(), *v)),
    );
    let known: Vec<J> = known_hits
        .iter()
        .map(|(k, v)| J::obj(vec![("signature", J::s(k.clone())), ("runs", J::u(v.0))]))
        .collect();
    let doc = J::obj(vec![
        ("property_id", J::s(prop.id)),
        ("tier", J::s(tier.name())),
        ("seed", J::u(seed)),
        ("level", J::s("exploration")),
        (
            "coverage",
            J::obj(vec![
                ("evaluations", J::u(evaluations)),
                ("distinct_nontrivial", J::u(distinct as u64)),
                ("rule", J::s(rule)),
                ("samples", J::Arr(samples)),
                ("exhaustive", J::Bool(false)),
                (
                    "runs_per_hour",
                    J::u(if wall > 0.0 {
                        (evaluations as f64 / wall * 3600.0) as u64
                    } else {
                        0
                    }),
                ),
                ("simulated_time_s", J::u(sim_ms / 1000)),
                ("executor_steps", J::u(steps)),
                ("workers", J::u(workers as u64)),
                ("wall_clock_cap_reached", J::Bool(capped)),
                ("faults_fired", faults),
                ("probes_hit", probes),
                ("per_scenario", J::Arr(per_scenario)),
                (
                    "real_components",
                    J::Arr(real.iter().map(|x| J::s(*x)).collect()),
                ),
                (
                    "stub_components",
                    J::Arr(stub.iter().map(|x| J::s(*x)).collect()),
                ),
                ("known_findings_matched", J::Arr(known)),
            ]),
        ),
        (
            "assumptions",
            J::Arr(assumptions.into_iter().map(J::s).collect()),
        ),
        ("wall_s", J::Num((wall * 1000.0).round() / 1000.0)),
        ("violations", J::u(if exit == 0 { 0 } else { 1 })),
    ]);
    let dir = format!("{}/evidence", verif_root());
    let _ = std::fs::create_dir_all(&dir);
    let path = format!("{}/{}.json", dir, prop.id);
    std::fs::write(&path, doc.render()).expect("write evidence");
}

#[derive(serde::Deserialize)]
struct ReplayHead {
    property: String,
    scenario: String,
}

/// `replay <file>`: re-run exactly the recorded case in this fresh process
pub fn run_replay<C: Codec>(props: &[Property], path: &str) -> i32 {
    let text = match std::fs::read_to_string(path) {
        Ok(t) => t,
        Err(e) => {
            eprintln!("harness error: cannot read {}: {}", path, e);
            return 2;
        }
    };
    let head: ReplayHead = match C::from_json(&text) {
        Ok(d) => d,
        Err(e) => {
            eprintln!("harness error: cannot parse {}: {}", path, e);
            return 2;
        }
    };
    let pid = head.property.as_str();
    let sname = head.scenario.as_str();
    let prop = match props.iter().find(|p| p.id == pid) {
        Some(p) => p,
        None => {
            eprintln!("harness error: unknown property '{}'", pid);
            return 2;
        }
    };
    let sc = match prop.scenarios.iter().find(|s| s.name() == sname) {
        Some(s) => s,
        None => {
            eprintln!("harness error: unknown scenario '{}'", sname);
            return 2;
        }
    };
    match sc.run_replay_doc(&text, true) {
        Err(e) => {
            eprintln!("harness error: bad case in replay file: {}", e);
            2
        }
        Ok(out) => {
            let verbose = std::env::var("VERIF_REPLAY_LOG").is_ok();
            if verbose {
                for l in &out.log {
                    println!("{}", l);
                }
            }
            if let Some(e) = out.harness_error {
                eprintln!("HARNESS-ERROR {}", e);
                return 2;
            }
            match out.violation {
                Some(v) => {
                    println!("VIOLATION property={} replay={}", pid, path);
                    println!("  signature: {}", v.signature());
                    println!("  detail: {}", v.detail);
                    println!("  trace_hash: {:016x}", out.trace_hash);
                    1
                }
                None => {
                    println!(
                        "replay of {} did not violate {} (trace_hash {:016x})",
                        path, pid, out.trace_hash
                    );
                    0
                }
            }
        }
    }
}

/// `trace <prop> <n>`: print one line per run with its trace hash (determinism check)
pub fn run_trace(prop: &Property, tier: Tier, seed: u64, n: u64) -> i32 {
    let workers: usize = std::env::var("VERIF_WORKERS")
        .ok()
        .and_then(|s| s.parse().ok())
        .unwrap_or(16);
    for sc in &prop.scenarios {
        let results: Mutex<BTreeMap<u64, String>> = Mutex::new(BTreeMap::new());
        let next = AtomicU64::new(0);
        std::thread::scope(|scope| {
            for _ in 0..workers {
                scope.spawn(|| loop {
                    let r = next.fetch_add(1, Ordering::SeqCst);
                    if r >= n {
                        break;
                    }
                    let out = sc.run_generated(seed, r, tier);
                    let line = format!(
                        "{} {} run={} trace={:016x} steps={} sim_ms={} fp={:016x} nt={} viol={}",
                        prop.id,
                        sc.name(),
                        r,
                        out.trace_hash,
                        out.steps,
                        out.sim_ms,
                        out.fingerprint,
                        out.nontrivial,
                        out.violation.map(|v| v.signature()).unwrap_or_default()
                    );
                    results.lock().unwrap().insert(r, line);
                });
            }
        });
        for (_, l) in results.into_inner().unwrap() {
            println!("{}", l);
        }
    }
    0
}
