//! Scripted protocol peers that speak through the harness' own codec only (refcodec).

use crate::verif::io::{self, ChanRef};
use crate::verif::refcodec::app as refapp;
use crate::verif::refcodec::link as reflink;
use crate::verif::refcodec::link::RefFrame;
use crate::verif::refcodec::transport as reftr;

#[derive(Clone, Debug)]
pub struct RxFragment {
    pub t_ms: u64,
    /// world-wide sequence number of the write that completed this fragment
    pub order: u64,
    pub src: u16,
    pub dest: u16,
    pub bytes: Vec<u8>,
    /// decoded with the reference decoder (None = the reference decoder rejects it)
    pub frag: Option<refapp::Fragment>,
    pub decode_error: Option<String>,
}

/// link + transport endpoint of a scripted peer (either role)
pub struct PeerLink {
    /// true when this peer plays the master (DIR bit set in frames it sends)
    pub is_master: bool,
    tseq: u8,
    rx: Vec<u8>,
    rx_times: Vec<(usize, u64, u64)>,
    consumed: usize,
    reasm: reftr::Reassembler,
    /// non-data link frames seen from the other side, with time
    pub link_frames: Vec<(u64, RefFrame)>,
    /// order number at which each entry of `link_frames` was written by the other side
    pub link_frame_orders: Vec<u64>,
    /// count of octets that did not deframe cleanly
    pub garbage_octets: usize,
    pub frames_seen: usize,
}

impl PeerLink {
    pub fn new(is_master: bool) -> Self {
        Self {
            is_master,
            tseq: 0,
            rx: Vec::new(),
            rx_times: Vec::new(),
            consumed: 0,
            reasm: reftr::Reassembler::new(4096),
            link_frames: Vec::new(),
            link_frame_orders: Vec::new(),
            garbage_octets: 0,
            frames_seen: 0,
        }
    }

    pub fn reset(&mut self) {
        self.tseq = 0;
        self.rx.clear();
        self.rx_times.clear();
        self.consumed = 0;
        self.reasm.reset();
    }

    fn data_ctrl(&self) -> u8 {
        if self.is_master {
            0xC4
        } else {
            0x44
        }
    }

    /// link frames (concatenated octets) carrying one application fragment
    pub fn encode_fragment(&mut self, src: u16, dest: u16, app: &[u8]) -> Vec<u8> {
        let (segs, next) = reftr::segment(app, self.tseq);
        self.tseq = next;
        let mut out = Vec::new();
        for s in segs {
            out.extend(reflink::build_frame(&RefFrame {
                ctrl: self.data_ctrl(),
                dest,
                src,
                payload: s.to_payload(),
            }));
        }
        out
    }

    pub fn encode_link_status_request(&self, src: u16, dest: u16) -> Vec<u8> {
        reflink::build_frame(&RefFrame {
            ctrl: if self.is_master { 0xC9 } else { 0x49 },
            dest,
            src,
            payload: Vec::new(),
        })
    }

    pub fn encode_link_status_response(&self, src: u16, dest: u16) -> Vec<u8> {
        reflink::build_frame(&RefFrame {
            ctrl: if self.is_master { 0x8B } else { 0x0B },
            dest,
            src,
            payload: Vec::new(),
        })
    }

    /// drain everything the other side wrote and return the application fragments completed by it
    pub fn poll(&mut self, from_other: &ChanRef) -> Vec<RxFragment> {
        for (t, order, data) in io::chan_drain_ordered(from_other) {
            self.rx_times.push((self.rx.len(), t, order));
            self.rx.extend_from_slice(&data);
        }
        let mut out = Vec::new();
        loop {
            let rest = &self.rx[self.consumed..];
            if rest.is_empty() {
                break;
            }
            match reflink::candidate(rest) {
                reflink::Candidate::Frame(f, len) => {
                    let start = self.consumed;
                    let (t, order) = self
                        .rx_times
                        .iter()
                        .rev()
                        .find(|(off, _, _)| *off <= start)
                        .map(|x| (x.1, x.2))
                        .unwrap_or((0, 0));
                    self.consumed += len;
                    self.frames_seen += 1;
                    let func = f.ctrl & 0x4F;
                    if func == 0x44 {
                        if let Some(seg) = reftr::Segment::parse(&f.payload) {
                            if let Some((src, bytes)) = self.reasm.push(f.src, &seg) {
                                let (frag, err) = match refapp::decode_fragment(&bytes) {
                                    Ok(fr) => (Some(fr), None),
                                    Err(e) => (None, Some(format!("{:?}", e))),
                                };
                                out.push(RxFragment {
                                    t_ms: t,
                                    order,
                                    src,
                                    dest: f.dest,
                                    bytes,
                                    frag,
                                    decode_error: err,
                                });
                            }
                        }
                    } else {
                        if func == 0x49 {
                            if let Some(core) = crate::verif::kernel::current() {
                                core.count("probe.link_status_request_from_endpoint", 1);
                            }
                        }
                        self.link_frames.push((t, f));
                        self.link_frame_orders.push(order);
                    }
                }
                reflink::Candidate::Incomplete => break,
                reflink::Candidate::Bad(_) => {
                    self.consumed += 1;
                    self.garbage_octets += 1;
                }
            }
        }
        out
    }
}
