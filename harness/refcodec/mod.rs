pub mod link;
pub mod transport;
