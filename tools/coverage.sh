#!/bin/bash
# usage: tools/coverage.sh [tier] [Cnn ...]
# Reach measurement: builds the simulator with source-based coverage instrumentation (nightly toolchain, which ships
# llvm-profdata / llvm-cov) into its own target directory, runs the given checks (default: all, quick tier), and prints
# line coverage of stepfunc/dnp3 per file plus the uncovered regions of the files the properties are anchored in.
# Output: /verif/soak/coverage/{summary.txt,uncovered/<file>.txt}. The instrumented build is removed afterwards.
tier=${1:-quick}; shift
props=${*:-C01 C02 C03 C04 C05 C06 C07 C08 C11 C12 C13 C14 C15 C16 C17 C18 C19}
BIN=$HOME/.rustup/toolchains/nightly-x86_64-unknown-linux-gnu/lib/rustlib/x86_64-unknown-linux-gnu/bin
T=/verif/sim/target-cov; OUT=/verif/soak/coverage
mkdir -p $OUT/uncovered $OUT/prof $OUT/root/evidence $OUT/root/replays; rm -f $OUT/prof/*
cd /verif/sim || exit 2
RUSTFLAGS="--cfg dnp3_verif --cfg tokio_unstable -Awarnings -C instrument-coverage" \
  cargo +nightly build --offline --quiet --target-dir $T || exit 2
cp /verif/known_findings.json $OUT/root/
for c in $props; do
  LLVM_PROFILE_FILE="$OUT/prof/$c-%p-%m.profraw" VERIF_ROOT=$OUT/root $T/debug/dnp3sim check $c $tier | tail -1
done
$BIN/llvm-profdata merge -sparse $OUT/prof/*.profraw -o $OUT/all.profdata || exit 2
$BIN/llvm-cov report $T/debug/dnp3sim -instr-profile=$OUT/all.profdata --ignore-filename-regex='(/verif/|\.cargo|rustc/|sim/src)' > $OUT/summary.txt
for f in $(jq -r '.anchors.files[]' /verif/properties.jsonl | grep '^dnp3/' | sort -u); do
  [ -f /repo/$f ] || continue
  $BIN/llvm-cov show $T/debug/dnp3sim -instr-profile=$OUT/all.profdata /repo/$f --show-line-counts-or-regions 2>/dev/null \
    | grep -E '^ +[0-9]+\| +0\|' > $OUT/uncovered/$(echo $f | tr / _).txt
done
rm -rf $T $OUT/prof
echo "summary: $OUT/summary.txt"
