//! Independent reference for the DNP3 link layer, written from the standard (IEEE 1815 clause 9):
//! bit-serial CRC-16/DNP, frame builder, and a whole-stream deframer with the resynchronisation
//! rule "after a failed candidate, resume the search one octet after its first start octet".
//! Shares no code with /repo.

/// CRC-16/DNP: polynomial 0x3D65 (reflected 0xA6BC), init 0, output complemented, bit-serial.
pub fn crc(data: &[u8]) -> u16 {
    let mut reg: u16 = 0;
    for byte in data {
        let mut b = *byte;
        for _ in 0..8 {
            let bit = (reg ^ b as u16) & 1;
            reg >>= 1;
            if bit != 0 {
                reg ^= 0xA6BC;
            }
            b >>= 1;
        }
    }
    !reg
}

#[derive(Clone, Debug, PartialEq, Eq, serde::Serialize, serde::Deserialize)]
pub struct RefFrame {
    pub ctrl: u8,
    pub dest: u16,
    pub src: u16,
    pub payload: Vec<u8>,
}

/// Build a link frame (header + 16-octet blocks each followed by its CRC)
pub fn build_frame(f: &RefFrame) -> Vec<u8> {
    assert!(f.payload.len() <= 250);
    let mut out = Vec::with_capacity(292);
    out.push(0x05);
    out.push(0x64);
    out.push((f.payload.len() + 5) as u8);
    out.push(f.ctrl);
    out.extend_from_slice(&f.dest.to_le_bytes());
    out.extend_from_slice(&f.src.to_le_bytes());
    let c = crc(&out[0..8]);
    out.extend_from_slice(&c.to_le_bytes());
    for block in f.payload.chunks(16) {
        out.extend_from_slice(block);
        out.extend_from_slice(&crc(block).to_le_bytes());
    }
    out
}

pub fn body_len(payload_len: usize) -> usize {
    let full = payload_len / 16;
    let rem = payload_len % 16;
    full * 18 + if rem > 0 { rem + 2 } else { 0 }
}

#[derive(Clone, Debug, PartialEq, Eq)]
pub enum Candidate {
    /// a complete, valid frame occupying stream[pos..pos+len]
    Frame(RefFrame, usize),
    /// candidate at this position is invalid
    Bad(&'static str),
    /// not enough octets to decide
    Incomplete,
}

/// Examine the candidate frame starting at `s[0]`
pub fn candidate(s: &[u8]) -> Candidate {
    if s.is_empty() {
        return Candidate::Incomplete;
    }
    if s[0] != 0x05 {
        return Candidate::Bad("start1");
    }
    if s.len() < 2 {
        return Candidate::Incomplete;
    }
    if s[1] != 0x64 {
        return Candidate::Bad("start2");
    }
    if s.len() < 10 {
        return Candidate::Incomplete;
    }
    let len = s[2];
    if len < 5 {
        return Candidate::Bad("length");
    }
    let hc = u16::from_le_bytes([s[8], s[9]]);
    if hc != crc(&s[0..8]) {
        return Candidate::Bad("header-crc");
    }
    let plen = len as usize - 5;
    let blen = body_len(plen);
    if s.len() < 10 + blen {
        return Candidate::Incomplete;
    }
    let mut payload = Vec::with_capacity(plen);
    let mut pos = 10;
    let mut remaining = plen;
    while remaining > 0 {
        let n = remaining.min(16);
        let block = &s[pos..pos + n];
        let bc = u16::from_le_bytes([s[pos + n], s[pos + n + 1]]);
        if bc != crc(block) {
            return Candidate::Bad("body-crc");
        }
        payload.extend_from_slice(block);
        pos += n + 2;
        remaining -= n;
    }
    Candidate::Frame(
        RefFrame {
            ctrl: s[3],
            dest: u16::from_le_bytes([s[4], s[5]]),
            src: u16::from_le_bytes([s[6], s[7]]),
            payload,
        },
        pos,
    )
}

#[derive(Clone, Debug, PartialEq, Eq)]
pub struct Deframed {
    /// frames in order with the stream offset at which each starts
    pub frames: Vec<(usize, RefFrame)>,
    /// offset of the first framing error, if any (what was wrong)
    pub first_error: Option<(usize, &'static str)>,
}

/// Whole-stream reference deframer. `discard = true`: resynchronise after errors;
/// `discard = false` (close mode): stop at the first error.
pub fn deframe(stream: &[u8], discard: bool) -> Deframed {
    let mut out = Deframed {
        frames: Vec::new(),
        first_error: None,
    };
    let mut pos = 0;
    while pos < stream.len() {
        match candidate(&stream[pos..]) {
            Candidate::Frame(f, len) => {
                out.frames.push((pos, f));
                pos += len;
            }
            Candidate::Incomplete => break,
            Candidate::Bad(why) => {
                if out.first_error.is_none() {
                    out.first_error = Some((pos, why));
                }
                if !discard {
                    break;
                }
                pos += 1;
            }
        }
    }
    out
}

#[cfg(test)]
mod tests {}
