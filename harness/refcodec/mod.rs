pub mod app;
pub mod link;
pub mod transport;
